"""Reference IC10 machine (trusted; DESIGN 5.2).  Executes emitted text and records the externally visible effects.

Environment: env(devkey, what, tick) -> finite double, constant within a tick (tick = number of yield/sleep executed).
Reads are not effects; the chip's own writes do not feed back into later reads of device values (generated
programs never read a logic value they wrote).  The chip's own stack (db) is real memory.

Instrumentation for the bounded contracts: shadow call stack (C06), region map (C07), per-line hit counts."""
from __future__ import annotations

import json
import math
import re
from pathlib import Path

from spec import ic10_ops as ops
from spec.crc32 import crc32_signed_bytes
from spec.ic10_isa import ISA

_SNAP = json.loads((Path(__file__).parent / "enum_snapshot.json").read_text())
BARE_ENUMS = ("LogicType", "LogicSlotType", "LogicBatchMethod")
NAMES = {}
for _c in BARE_ENUMS:
    for _k, _v in _SNAP[_c].items():
        NAMES.setdefault(_k, _v)  # LogicType first: the game resolves bare names per operand position; ambiguous names share numbers only by accident
QUALIFIED = {f"{c}.{k}": v for c, t in _SNAP.items() for k, v in t.items()}
KIND_TABLE = {"lt": _SNAP["LogicType"], "lst": _SNAP["LogicSlotType"], "bm": _SNAP["LogicBatchMethod"], "rm": _SNAP.get("LogicReagentMode", {})}

REGS = {f"r{i}" for i in range(16)} | {"sp", "ra"}
PINS = {f"d{i}" for i in range(6)} | {"db"}
STACK_SIZE = 512


class MachineError(Exception):
    """The program cannot be loaded or performs an invalid operation (the game would show an error)."""


def pack_str(s):
    v = 0
    for ch in s:
        v = v * 256 + ord(ch)
    return v


_TOKEN = re.compile(r'(?:HASH|STR)\("(?:[^"\\]|\\.)*"\)|\S+')


def split_comment(line):
    """code part of a line: text before the first '#' that is not inside a "..." literal"""
    out, inq = [], False
    for ch in line:
        if ch == '"':
            inq = not inq
        if ch == "#" and not inq:
            break
        out.append(ch)
    return "".join(out)


def tokenize(line):
    return _TOKEN.findall(split_comment(line))


def parse_number(tok):
    """numeric literal in IC10 syntax -> float, or None"""
    if re.fullmatch(r"-?\d+(\.\d+)?", tok) or re.fullmatch(r"-?\.\d+", tok):
        return float(tok)
    if re.fullmatch(r"\$[0-9A-Fa-f_]+", tok):
        return float(int(tok[1:].replace("_", ""), 16))
    if re.fullmatch(r"%[01_]+", tok):
        return float(int(tok[1:].replace("_", ""), 2))
    m = re.fullmatch(r'HASH\("(.*)"\)', tok, re.S)
    if m:
        return float(crc32_signed_bytes(m.group(1).encode()))
    m = re.fullmatch(r'STR\("(.*)"\)', tok, re.S)
    if m:
        return float(pack_str(m.group(1)))
    return None


class Program:
    def __init__(self, text):
        self.text = text
        self.lines = text.split("\n") if text != "" else []
        self.code = [tokenize(l) for l in self.lines]
        self.labels = {}
        self.label_defs = {}
        for i, toks in enumerate(self.code):
            if len(toks) == 1 and toks[0].endswith(":") and len(toks[0]) > 1:
                name = toks[0][:-1]
                self.label_defs.setdefault(name, []).append(i)
                self.labels.setdefault(name, i)

    def is_label(self, i):
        t = self.code[i]
        return len(t) == 1 and t[0].endswith(":")


class Machine:
    def __init__(self, text, env, max_steps=4000, max_ticks=3):
        self.p = Program(text) if not isinstance(text, Program) else text
        self.env = env
        self.reg = {r: 0.0 for r in REGS}
        self.stack = [0.0] * STACK_SIZE
        self.alias = {}
        self.defines = {}
        self.pc = 0
        self.tick = 0
        self.steps = 0
        self.max_steps, self.max_ticks = max_steps, max_ticks
        self.trace = []
        self.status = None  # 'end' | 'ticks' | 'steps' | 'hcf' | 'error: ...'
        self.calls = []  # shadow call stack: (return line, sp at the jal)
        self.call_events = []  # ('call'|'ret'|'badret', ...)
        self.hits = {}
        self.reg_writer = {}  # shadow tags: physical register -> line that wrote it
        self.sp_at_yield = []

    # ---------------------------------------------------------------- operands
    def num(self, tok, kind="num"):
        if tok in REGS:
            return self.reg[tok]
        if tok in self.alias and self.alias[tok] in REGS:
            return self.reg[self.alias[tok]]
        if tok in self.defines:
            return self.defines[tok]
        v = parse_number(tok)
        if v is not None:
            return v
        if kind in KIND_TABLE and tok in KIND_TABLE[kind]:
            return float(KIND_TABLE[kind][tok])
        if tok in QUALIFIED:
            return float(QUALIFIED[tok])
        if kind in ("target", "num", "off") and tok in self.p.labels:
            return float(self.p.labels[tok])
        if tok in NAMES:
            return float(NAMES[tok])
        raise MachineError(f"line {self.pc}: cannot evaluate operand {tok!r} as {kind}")

    def outreg(self, tok):
        if tok in REGS:
            return tok
        if tok in self.alias and self.alias[tok] in REGS:
            return self.alias[tok]
        raise MachineError(f"line {self.pc}: {tok!r} is not a register")

    def dev(self, tok):
        if tok in PINS:
            return ("pin", tok)
        if tok in self.alias and self.alias[tok] in PINS:
            return ("pin", self.alias[tok])
        # a register / number in device position is a reference id
        try:
            return ("ref", self.num(tok))
        except MachineError:
            raise MachineError(f"line {self.pc}: {tok!r} is not a device")

    def setreg(self, r, v):
        if isinstance(v, bool):
            v = 1.0 if v else 0.0
        v = float(v)
        self.reg[r] = v
        self.reg_writer[r] = self.pc

    def addr(self, v):
        if not (v == v and abs(v) != math.inf) or int(v) != v or not (0 <= int(v) < STACK_SIZE):
            raise MachineError(f"line {self.pc}: stack address {v} out of range")
        return int(v)

    # ---------------------------------------------------------------- run
    def run(self):
        n = len(self.p.code)
        while True:
            if self.pc >= n or self.pc < 0:
                self.status = "end" if self.pc >= n else f"error: jump to line {self.pc}"
                return self
            if self.steps >= self.max_steps:
                self.status = "steps"
                return self
            toks = self.p.code[self.pc]
            self.hits[self.pc] = self.hits.get(self.pc, 0) + 1
            self.steps += 1
            if not toks or self.p.is_label(self.pc):
                self.pc += 1
                continue
            try:
                nxt = self.step(toks)
            except MachineError as e:
                self.status = f"error: {e}"
                return self
            except (ZeroDivisionError, OverflowError, ValueError) as e:
                self.status = f"error: line {self.pc}: arithmetic {type(e).__name__} in {' '.join(toks)}"
                return self
            if self.status is not None:
                return self
            self.pc = self.pc + 1 if nxt is None else nxt

    def jump_target(self, v):
        if int(v) != v:
            raise MachineError(f"line {self.pc}: jump to non-integer line {v}")
        return int(v)

    def step(self, toks):
        op, a = toks[0], toks[1:]
        if op not in ISA:
            raise MachineError(f"line {self.pc}: unknown opcode {op!r}")
        has_out, kinds = ISA[op]
        if len(a) != len(kinds) + (1 if has_out else 0):
            raise MachineError(f"line {self.pc}: {op} takes {len(kinds) + (1 if has_out else 0)} operands, got {len(a)}: {' '.join(toks)}")
        N = self.num
        # ---- arithmetic with output register
        if op in ops.BINARY:
            x, y = N(a[1]), N(a[2])
            if op in ("mod",) and y == 0:
                raise MachineError(f"line {self.pc}: mod by zero")
            if op == "div" and y == 0:
                r = math.copysign(math.inf, x) if x != 0 else math.nan
            else:
                r = ops.BINARY[op](x, y)
            return self.setreg(self.outreg(a[0]), r)
        simple1 = {"abs": abs, "ceil": math.ceil, "floor": math.floor, "round": lambda v: float(round(v)), "trunc": math.trunc,
                   "sqrt": math.sqrt, "exp": math.exp, "log": math.log, "sin": math.sin, "cos": math.cos, "tan": math.tan,
                   "asin": math.asin, "acos": math.acos, "atan": math.atan, "move": lambda v: v, "not": ops.chip_not,
                   "seqz": lambda v: v == 0, "snez": lambda v: v != 0, "sgez": lambda v: v >= 0, "sgtz": lambda v: v > 0,
                   "slez": lambda v: v <= 0, "sltz": lambda v: v < 0, "snan": lambda v: v != v, "snanz": lambda v: v == v}
        if op in simple1:
            return self.setreg(self.outreg(a[0]), simple1[op](N(a[1])))
        simple2 = {"max": max, "min": min, "atan2": math.atan2, "sla": lambda x, y: float(int(x) << int(y)), "sra": lambda x, y: float(int(x) >> int(y)),
                   "sapz": lambda x, y: abs(x) <= max(y * abs(x), 1.1210387714598537e-44), "snaz": lambda x, y: not (abs(x) <= max(y * abs(x), 1.1210387714598537e-44))}
        if op in simple2:
            return self.setreg(self.outreg(a[0]), simple2[op](N(a[1]), N(a[2])))
        if op == "select":
            return self.setreg(self.outreg(a[0]), N(a[2]) if N(a[1]) != 0 else N(a[3]))
        if op == "lerp":
            x, y, t = N(a[1]), N(a[2]), N(a[3])
            t = min(1.0, max(0.0, t))
            return self.setreg(self.outreg(a[0]), x + (y - x) * t)
        if op in ("sap", "sna"):
            x, y, c = N(a[1]), N(a[2]), N(a[3])
            ap = abs(x - y) <= max(c * max(abs(x), abs(y)), 1.1210387714598537e-44)
            return self.setreg(self.outreg(a[0]), ap if op == "sap" else not ap)
        if op == "rand":
            return self.setreg(self.outreg(a[0]), self.env(("rand",), self.steps, self.tick) % 1.0)
        if op in ("ext", "ins"):
            raise MachineError(f"line {self.pc}: {op} is not modelled")
        # ---- misc
        if op == "alias":
            tgt = a[1]
            if tgt in self.alias:
                tgt = self.alias[tgt]
            if tgt not in REGS and tgt not in PINS:
                raise MachineError(f"line {self.pc}: alias target {a[1]!r} is neither register nor device")
            self.alias[a[0]] = tgt
            return None
        if op == "define":
            self.defines[a[0]] = N(a[1])
            return None
        if op == "hcf":
            self.trace.append(("hcf",))
            self.status = "hcf"
            return None
        if op in ("yield", "sleep"):
            self.trace.append(("yield",) if op == "yield" else ("sleep", N(a[0])))
            self.sp_at_yield.append((self.reg["sp"], len(self.calls)))
            self.tick += 1
            if self.tick >= self.max_ticks:
                self.status = "ticks"
            return None
        # ---- stack
        if op == "push":
            v = N(a[0])
            sp = self.addr(self.reg["sp"])
            self.stack[sp] = v
            self.reg["sp"] = float(sp + 1)
            return None
        if op in ("pop", "peek"):
            sp = self.addr(self.reg["sp"] - 1)
            r = self.outreg(a[0])
            if op == "pop":
                self.reg["sp"] = float(sp)
            return self.setreg(r, self.stack[sp])
        if op == "poke":
            self.stack[self.addr(N(a[0]))] = N(a[1])
            return None
        if op in ("get", "getd"):
            d = self.dev(a[1]) if op == "get" else ("ref", N(a[1]))
            ad = self.addr(N(a[2]))
            return self.setreg(self.outreg(a[0]), self.stack[ad] if d == ("pin", "db") else self.env(d, ("stack", ad), self.tick))
        if op in ("put", "putd"):
            d = self.dev(a[0]) if op == "put" else ("ref", N(a[0]))
            ad, v = self.addr(N(a[1])), N(a[2])
            if d == ("pin", "db"):
                self.stack[ad] = v
            else:
                self.trace.append(("put", d, ad, v))
            return None
        if op in ("clr", "clrd"):
            d = self.dev(a[0]) if op == "clr" else ("ref", N(a[0]))
            if d == ("pin", "db"):
                self.stack = [0.0] * STACK_SIZE
            else:
                self.trace.append(("clr", d))
            return None
        # ---- device io
        if op == "l":
            return self.setreg(self.outreg(a[0]), self.env(self.dev(a[1]), ("lt", N(a[2], "lt")), self.tick))
        if op == "ls":
            return self.setreg(self.outreg(a[0]), self.env(self.dev(a[1]), ("slot", N(a[2]), N(a[3], "lst")), self.tick))
        if op == "lr":
            return self.setreg(self.outreg(a[0]), self.env(self.dev(a[1]), ("reagent", N(a[2], "rm"), N(a[3])), self.tick))
        if op == "rmap":
            return self.setreg(self.outreg(a[0]), self.env(self.dev(a[1]), ("rmap", N(a[2])), self.tick))
        if op == "s":
            self.trace.append(("s", self.dev(a[0]), N(a[1], "lt"), N(a[2])))
            return None
        if op == "ss":
            self.trace.append(("ss", self.dev(a[0]), N(a[1]), N(a[2], "lst"), N(a[3])))
            return None
        if op == "lb":
            return self.setreg(self.outreg(a[0]), self.env(("batch", N(a[1])), ("lt", N(a[2], "lt"), N(a[3], "bm")), self.tick))
        if op == "lbn":
            return self.setreg(self.outreg(a[0]), self.env(("batch", N(a[1]), N(a[2])), ("lt", N(a[3], "lt"), N(a[4], "bm")), self.tick))
        if op == "lbs":
            return self.setreg(self.outreg(a[0]), self.env(("batch", N(a[1])), ("slot", N(a[2]), N(a[3], "lst"), N(a[4], "bm")), self.tick))
        if op == "lbns":
            return self.setreg(self.outreg(a[0]), self.env(("batch", N(a[1]), N(a[2])), ("slot", N(a[3]), N(a[4], "lst"), N(a[5], "bm")), self.tick))
        if op == "sb":
            self.trace.append(("sb", N(a[0]), N(a[1], "lt"), N(a[2])))
            return None
        if op == "sbn":
            self.trace.append(("sbn", N(a[0]), N(a[1]), N(a[2], "lt"), N(a[3])))
            return None
        if op == "sbs":
            self.trace.append(("sbs", N(a[0]), N(a[1]), N(a[2], "lst"), N(a[3])))
            return None
        if op in ("sdse", "sdns"):
            present = self.env(self.dev(a[1]), ("present",), self.tick) != 0
            return self.setreg(self.outreg(a[0]), present if op == "sdse" else not present)
        # ---- jumps
        if op == "j":
            t = a[0]
            if t == "ra" or (t in self.alias and self.alias[t] == "ra"):
                return self.do_return()
            return self.jump_target(N(t, "target"))
        if op == "jr":
            return self.pc + self.jump_target(N(a[0], "off"))
        if op == "jal":
            return self.do_call(self.jump_target(N(a[0], "target")))
        m = re.fullmatch(r"b(r?)(eq|ne|lt|le|gt|ge)(z?)(al)?", op)
        if m:
            rel, cc, z, al = m.groups()
            x = N(a[0])
            y = 0.0 if z else N(a[1])
            t = a[1] if z else a[2]
            if ops.branch_taken(cc, x, y):
                if rel:
                    return self.pc + self.jump_target(N(t, "off"))
                tgt = self.jump_target(N(t, "target"))
                return self.do_call(tgt) if al else tgt
            return None
        m = re.fullmatch(r"b(r?)d(ns|se)(al)?", op)
        if m:
            rel, which, al = m.groups()
            present = self.env(self.dev(a[0]), ("present",), self.tick) != 0
            if present == (which == "se"):
                if rel:
                    return self.pc + self.jump_target(N(a[1], "off"))
                tgt = self.jump_target(N(a[1], "target"))
                return self.do_call(tgt) if al else tgt
            return None
        m = re.fullmatch(r"b(r?)(ap|na)(z?)(al)?", op)
        if m:
            rel, which, z, al = m.groups()
            x = N(a[0])
            if z:
                c, t = N(a[1]), a[2]
                ap = abs(x) <= max(c * abs(x), 1.1210387714598537e-44)
            else:
                y, c, t = N(a[1]), N(a[2]), a[3]
                ap = abs(x - y) <= max(c * max(abs(x), abs(y)), 1.1210387714598537e-44)
            if ap == (which == "ap"):
                if rel:
                    return self.pc + self.jump_target(N(t, "off"))
                tgt = self.jump_target(N(t, "target"))
                return self.do_call(tgt) if al else tgt
            return None
        if op in ("bnan", "brnan"):
            x = N(a[0])
            if x != x:
                return self.pc + self.jump_target(N(a[1], "off")) if op == "brnan" else self.jump_target(N(a[1], "target"))
            return None
        raise MachineError(f"line {self.pc}: opcode {op} is not modelled")

    def do_call(self, tgt):
        self.reg["ra"] = float(self.pc + 1)
        self.calls.append((self.pc + 1, self.reg["sp"]))
        self.call_events.append(("call", self.pc, tgt, self.reg["sp"]))
        return tgt

    def do_return(self):
        dest = self.jump_target(self.reg["ra"])
        if self.calls:
            want, sp0 = self.calls.pop()
            self.call_events.append(("ret" if want == dest else "badret", self.pc, dest, want, self.reg["sp"], sp0))
        else:
            self.call_events.append(("ret-without-call", self.pc, dest, None, self.reg["sp"], None))
        return dest


def run(text, env, max_steps=4000, max_ticks=3):
    return Machine(text, env, max_steps, max_ticks).run()
