"""IC10 instruction set: one row per opcode of webapp/src/ic10.json (trusted reference; DESIGN 5.1).

Row = (has_output_register, [input operand kinds]).  Kinds:
  num     register or number (literal, $hex, %bin, HASH("..."), STR("..."), enum/constant name, define)
  dev     device operand: d0-d5, db, an alias, or a register holding a device index (dr-style is not emitted)
  id      reference id (num)
  lt/lst/bm/rm  logic type / logic slot type / batch mode / reagent mode (name or number, or register)
  hash    prefab / name hash (num)
  target  label or line number (num)
  off     relative offset (num)
  name    identifier introduced by alias/define
  regdev  register or device (second operand of alias)
Sources: the docstrings shipped in intrinsics.py and the in-game instruction reference."""

R, N = True, False


def _r(*ins):
    return (R, list(ins))


def _n(*ins):
    return (N, list(ins))


ISA = {
    # misc
    "alias": _n("name", "regdev"), "define": _n("name", "num"), "hcf": _n(), "sleep": _n("num"), "yield": _n(),
    # math
    "abs": _r("num"), "add": _r("num", "num"), "ceil": _r("num"), "div": _r("num", "num"), "pow": _r("num", "num"),
    "exp": _r("num"), "floor": _r("num"), "log": _r("num"), "max": _r("num", "num"), "min": _r("num", "num"),
    "mod": _r("num", "num"), "move": _r("num"), "mul": _r("num", "num"), "rand": _r(), "round": _r("num"),
    "sqrt": _r("num"), "sub": _r("num", "num"), "trunc": _r("num"), "lerp": _r("num", "num", "num"),
    "acos": _r("num"), "asin": _r("num"), "atan": _r("num"), "atan2": _r("num", "num"), "cos": _r("num"),
    "sin": _r("num"), "tan": _r("num"),
    # stack
    "clr": _n("dev"), "clrd": _n("id"), "get": _r("dev", "num"), "getd": _r("id", "num"), "peek": _r(),
    "poke": _n("num", "num"), "pop": _r(), "push": _n("num"), "put": _n("dev", "num", "num"), "putd": _n("id", "num", "num"),
    # device io
    "l": _r("dev", "lt"), "lr": _r("dev", "rm", "num"), "ls": _r("dev", "num", "lst"), "s": _n("dev", "lt", "num"),
    "ss": _n("dev", "num", "lst", "num"), "rmap": _r("dev", "num"),
    "lb": _r("hash", "lt", "bm"), "lbn": _r("hash", "hash", "lt", "bm"), "lbns": _r("hash", "hash", "num", "lst", "bm"),
    "lbs": _r("hash", "num", "lst", "bm"), "sb": _n("hash", "lt", "num"), "sbn": _n("hash", "hash", "lt", "num"),
    "sbs": _n("hash", "num", "lst", "num"),
    # bit
    "and": _r("num", "num"), "nor": _r("num", "num"), "not": _r("num"), "or": _r("num", "num"), "sla": _r("num", "num"),
    "sll": _r("num", "num"), "sra": _r("num", "num"), "srl": _r("num", "num"), "xor": _r("num", "num"),
    "ext": _r("num", "num", "num"), "ins": _r("num", "num", "num"),
    # select / set
    "select": _r("num", "num", "num"), "sdns": _r("dev"), "sdse": _r("dev"), "sap": _r("num", "num", "num"),
    "sapz": _r("num", "num"), "seq": _r("num", "num"), "seqz": _r("num"), "sge": _r("num", "num"), "sgez": _r("num"),
    "sgt": _r("num", "num"), "sgtz": _r("num"), "sle": _r("num", "num"), "slez": _r("num"), "slt": _r("num", "num"),
    "sltz": _r("num"), "sna": _r("num", "num", "num"), "snan": _r("num"), "snanz": _r("num"), "snaz": _r("num", "num"),
    "sne": _r("num", "num"), "snez": _r("num"),
    # jumps
    "j": _n("target"), "jal": _n("target"), "jr": _n("off"),
    "bdnvl": _n("dev", "lt", "target"), "bdnvs": _n("dev", "lt", "target"),
    "bdns": _n("dev", "target"), "bdnsal": _n("dev", "target"), "bdse": _n("dev", "target"), "bdseal": _n("dev", "target"),
    "brdns": _n("dev", "off"), "brdse": _n("dev", "off"),
    "bap": _n("num", "num", "num", "target"), "brap": _n("num", "num", "num", "off"), "bapal": _n("num", "num", "num", "target"),
    "bapz": _n("num", "num", "target"), "brapz": _n("num", "num", "off"), "bapzal": _n("num", "num", "target"),
    "bna": _n("num", "num", "num", "target"), "brna": _n("num", "num", "num", "off"), "bnaal": _n("num", "num", "num", "target"),
    "bnaz": _n("num", "num", "target"), "brnaz": _n("num", "num", "off"), "bnazal": _n("num", "num", "target"),
    "bnan": _n("num", "target"), "brnan": _n("num", "off"),
}
for _cc in ("eq", "ge", "gt", "le", "lt", "ne"):
    ISA["b" + _cc] = _n("num", "num", "target")
    ISA["br" + _cc] = _n("num", "num", "off")
    ISA["b" + _cc + "al"] = _n("num", "num", "target")
    ISA["b" + _cc + "z"] = _n("num", "target")
    ISA["br" + _cc + "z"] = _n("num", "off")
    ISA["b" + _cc + "zal"] = _n("num", "target")


def arity(op):
    out, ins = ISA[op]
    return (1 if out else 0) + len(ins)


# Operand ROLES of the memory / device access instructions, in operand order (without the output register).
# From the in-game instruction reference ("put d? address value", "ss d? slotIndex logicSlotType r?", ...); the reference
# machine (spec/ic10_machine.py) reads operands in exactly this order.
ROLES = {
    "put": ("dev", "addr", "val"), "putd": ("id", "addr", "val"), "poke": ("addr", "val"), "get": ("dev", "addr"), "getd": ("id", "addr"),
    "l": ("dev", "lt"), "s": ("dev", "lt", "val"), "ls": ("dev", "slot", "lst"), "ss": ("dev", "slot", "lst", "val"),
    "lb": ("hash", "lt", "bm"), "lbn": ("hash", "namehash", "lt", "bm"), "lbs": ("hash", "slot", "lst", "bm"), "lbns": ("hash", "namehash", "slot", "lst", "bm"),
    "sb": ("hash", "lt", "val"), "sbn": ("hash", "namehash", "lt", "val"), "sbs": ("hash", "slot", "lst", "val"),
}
