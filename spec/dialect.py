"""Reference execution of a source program under the documented dialect (trusted; DESIGN 5.3).

The source is executed by CPython itself with `stationeers_pytrapic.symbols` replaced by a simulation namespace:
devices, batches, slots and stacks record effects and read the same environment function the IC10 machine
reads.  Numbers are plain Python numbers: the bounded generators stay inside the fragment where Python and
IC10 arithmetic coincide (finite doubles, non-zero divisors, positive modulus, boolean operators only on
0/1 values, no bit operators on non-integers), so control flow, scoping, argument passing, early returns
and loops are CPython's own.  Trusted base: CPython + this file."""
from __future__ import annotations

import ast
import json
import math
import sys
from pathlib import Path

from spec.crc32 import crc32_signed_bytes
from spec.ic10_machine import pack_str

_SNAP = json.loads((Path(__file__).parent / "enum_snapshot.json").read_text())
LT, LST, BM = _SNAP["LogicType"], _SNAP["LogicSlotType"], _SNAP["LogicBatchMethod"]


class StopSim(Exception):
    pass


class SimError(Exception):
    """the program left the fragment this reference semantics covers"""


def _num(v):
    if isinstance(v, bool):
        return 1.0 if v else 0.0
    if isinstance(v, (int, float)):
        if isinstance(v, float) and (v != v or abs(v) == math.inf):
            raise SimError("non-finite value")
        return float(v)
    if isinstance(v, _Enum):
        return float(v.value)
    raise SimError(f"value {v!r} is not a number")


class _Enum:
    def __init__(self, cls, name, value):
        self.cls, self.name, self.value = cls, name, value

    def __float__(self):
        return float(self.value)

    def __int__(self):
        return int(self.value)

    def __eq__(self, o):
        return _num(self) == _num(o)

    def __hash__(self):
        return hash(self.value)

    def __add__(self, o):
        return self.value + o

    __radd__ = __add__


class _EnumClass:
    def __init__(self, name, table):
        self.__dict__["_name"], self.__dict__["_table"] = name, table

    def __getattr__(self, k):
        t = self.__dict__["_table"]
        if k in t:
            return _Enum(self.__dict__["_name"], k, t[k])
        raise AttributeError(k)


class Sim:
    def __init__(self, env, max_ticks=3, max_steps=200000):
        self.env, self.tick, self.trace = env, 0, []
        self.max_ticks, self.max_steps, self.steps = max_ticks, max_steps, 0
        self.stack = {}
        self.status = None

    def read(self, key, what):
        return self.env(key, what, self.tick)

    def effect(self, e):
        self.trace.append(e)

    def do_yield(self, e):
        self.trace.append(e)
        self.tick += 1
        if self.tick >= self.max_ticks:
            self.status = "ticks"
            raise StopSim()


def _lt(name):
    if name not in LT:
        raise SimError(f"unknown logic type {name}")
    return float(LT[name])


class Device:
    def __init__(self, sim, key):
        self.__dict__["_sim"], self.__dict__["_key"] = sim, key

    def __getattr__(self, name):
        if name.startswith("__"):
            raise AttributeError(name)
        if name.startswith("slot") and name[4:].isdigit():
            return Slot(self._sim, self._key, int(name[4:]))
        return self._sim.read(self._key, ("lt", _lt(name)))

    def __setattr__(self, name, v):
        self._sim.effect(("s", self._key, _lt(name), _num(v)))


class Slot:
    def __init__(self, sim, key, idx):
        self.__dict__.update(_sim=sim, _key=key, _idx=idx)

    def __getattr__(self, name):
        if name not in LST:
            raise SimError(f"unknown slot type {name}")
        return self._sim.read(self._key, ("slot", float(self._idx), float(LST[name])))

    def __setattr__(self, name, v):
        self._sim.effect(("ss", self._key, float(self._idx), float(LST[name]), _num(v)))


class BatchValue:
    def __init__(self, sim, key, lt, bm=None):
        self.__dict__.update(_sim=sim, _key=key, _lt=lt, _bm=bm)

    def __getattr__(self, name):
        if name in BM:
            return self._sim.read(self._key, ("lt", self._lt, float(BM[name])))
        raise AttributeError(name)


class BatchMode:
    """Xs.Sum.<LogicType> spelling"""

    def __init__(self, sim, key, bm):
        self.__dict__.update(_sim=sim, _key=key, _bm=bm)

    def __getattr__(self, name):
        return self._sim.read(self._key, ("lt", _lt(name), float(BM[self._bm])))


class BatchSlot:
    def __init__(self, sim, key, idx):
        self.__dict__.update(_sim=sim, _key=key, _idx=idx)

    def __getattr__(self, name):
        if name not in LST:
            raise SimError(f"unknown slot type {name}")
        return BatchSlotValue(self._sim, self._key, self._idx, float(LST[name]))


class BatchSlotValue:
    def __init__(self, sim, key, idx, lst):
        self.__dict__.update(_sim=sim, _key=key, _idx=idx, _lst=lst)

    def __getattr__(self, name):
        if name in BM:
            return self._sim.read(self._key, ("slot", float(self._idx), self._lst, float(BM[name])))
        raise AttributeError(name)


class Batch:
    def __init__(self, sim, prefab_hash, name_hash=None):
        self.__dict__.update(_sim=sim, _h=prefab_hash, _n=name_hash)

    @property
    def _key(self):
        return ("batch", float(self._h)) if self._n is None else ("batch", float(self._h), float(self._n))

    def __getitem__(self, name):
        return Batch(self._sim, self._h, crc32_signed_bytes(name.encode()) if isinstance(name, str) else name)

    def __getattr__(self, name):
        if name.startswith("__"):
            raise AttributeError(name)
        if name in BM:
            return BatchMode(self._sim, self._key, name)
        if name.startswith("slot") and name[4:].isdigit():
            return BatchSlot(self._sim, self._key, int(name[4:]))
        return BatchValue(self._sim, self._key, _lt(name))

    def __setattr__(self, name, v):
        if self._n is None:
            self._sim.effect(("sb", float(self._h), _lt(name), _num(v)))
        else:
            self._sim.effect(("sbn", float(self._h), float(self._n), _lt(name), _num(v)))


class StackObj:
    def __init__(self, sim, key):
        self.sim, self.key = sim, key

    def __getitem__(self, i):
        i = int(_num(i))
        if self.key == ("pin", "db"):
            return self.sim.stack.get(i, 0.0)
        return self.sim.read(self.key, ("stack", i))

    def __setitem__(self, i, v):
        i = int(_num(i))
        if self.key == ("pin", "db"):
            self.sim.stack[i] = _num(v)
        else:
            self.sim.effect(("put", self.key, i, _num(v)))


def namespace(sim, structures):
    """the names `from stationeers_pytrapic.symbols import *` provides, as far as the bounded generators use them"""
    ns = {}
    for p in ("d0", "d1", "d2", "d3", "d4", "d5", "db"):
        ns[p] = Device(sim, ("pin", p))
    ns["stack"] = StackObj(sim, ("pin", "db"))
    ns["Stack"] = lambda dev=None, ref_id=None: StackObj(sim, dev._key if dev is not None else (("ref", _num(ref_id)) if ref_id is not None else ("pin", "db")))
    ns["Device"] = lambda dev=None, ref_id=None: Device(sim, dev._key if isinstance(dev, Device) else ("ref", _num(ref_id)))
    for sname, pname, prefab in structures:
        h = crc32_signed_bytes(prefab.encode())
        ns[sname] = (lambda dev=None, ref_id=None, **kw: Device(sim, dev._key if isinstance(dev, Device) else ("ref", _num(ref_id))))
        ns[pname] = Batch(sim, h)
    for cname, table in _SNAP.items():
        ns[cname] = _EnumClass(cname, table)
    ns["HASH"] = lambda s: crc32_signed_bytes(s.encode())
    ns["STR"] = lambda s: pack_str(s)
    ns["yield_"] = lambda: sim.do_yield(("yield",))
    ns["sleep"] = lambda t: sim.do_yield(("sleep", _num(t)))
    ns["hcf"] = lambda: (_ for _ in ()).throw(StopSim())
    ns["pi"], ns["tau"], ns["rgas"] = math.pi, 2 * math.pi, 8.31446261815324
    ns.update({"abs": abs, "max": max, "min": min, "floor": lambda a: float(math.floor(a)), "ceil": lambda a: float(math.ceil(a)),
               "trunc": lambda a: float(math.trunc(a)), "sqrt": math.sqrt, "sin": math.sin, "cos": math.cos, "tan": math.tan,
               "exp": math.exp, "log": math.log, "atan2": math.atan2, "asin": math.asin, "acos": math.acos, "atan": math.atan,
               "select": lambda a, b, c: b if a != 0 else c, "range": _range, "constexpr": lambda f: f,
               "seq": lambda a, b: 1.0 if a == b else 0.0, "sgt": lambda a, b: 1.0 if a > b else 0.0, "slt": lambda a, b: 1.0 if a < b else 0.0,
               "move": lambda a: a, "add": lambda a, b: a + b, "sub": lambda a, b: a - b, "mul": lambda a, b: a * b})
    return ns


class _Library:
    pass


def _range(*a):
    vals = []
    for x in a:
        x = _num(x)
        if int(x) != x:
            raise SimError("non-integral range bound")
        vals.append(int(x))
    return range(*vals)


def execute(sources, env, structures, max_ticks=3, max_steps=200000):
    """sources: str | {"": main, "mod": text, ...}.  -> (trace, status)"""
    if isinstance(sources, str):
        sources = {"": sources}
    sim = Sim(env, max_ticks, max_steps)
    base = namespace(sim, structures)
    mods = {}

    def load(modname):
        if modname in mods:
            return mods[modname]
        g = dict(base)
        g["__name__"] = modname
        g["__builtins__"] = {"__import__": imp, "range": _range, "abs": abs, "max": max, "min": min, "True": True, "False": False, "None": None,
                             "len": len, "float": float, "int": int, "bool": bool, "__build_class__": __build_class__, "__name__": modname}
        m = _Library()
        mods[modname] = m
        exec(compile(sources[modname], f"<{modname}>", "exec"), g)
        m.__dict__.update(g)
        return m

    def imp(name, globals=None, locals=None, fromlist=(), level=0):
        if name.startswith("stationeers_pytrapic"):
            return _Library()  # `from stationeers_pytrapic.symbols import *`: names are pre-bound
        if name == "library":
            lib = _Library()
            for f in fromlist or ():
                if f not in sources:
                    raise SimError(f"unknown library module {f}")
                setattr(lib, f, load(f))
            return lib
        raise SimError(f"import of {name}")

    def tracer(frame, event, arg):
        if event == "line":
            sim.steps += 1
            if sim.steps > sim.max_steps:
                sim.status = "steps"
                raise StopSim()
        return tracer

    g = dict(base)
    g["__name__"] = "__main__"
    g["__builtins__"] = {"__import__": imp, "range": _range, "abs": abs, "max": max, "min": min, "True": True, "False": False, "None": None,
                         "len": len, "float": float, "int": int, "bool": bool, "__name__": "__main__"}
    old = sys.gettrace()
    try:
        sys.settrace(tracer)
        exec(compile(sources[""], "<main>", "exec"), g)
        sim.status = sim.status or "end"
    except StopSim:
        sim.status = sim.status or "hcf"
    finally:
        sys.settrace(old)
    return sim.trace, sim.status
