"""Reference semantics of the IC10 arithmetic/logic instructions (trusted; DESIGN 5.1).

Written from the instruction descriptions the repository itself ships (docstrings in
intrinsics.py) and the documented behaviour of the game.  Plain Python in the pyvc subset:
executed natively by the reference machine / replay, interpreted symbolically for proofs.
Numbers are IEEE doubles.  Bit operations truncate toward zero to a signed 64-bit integer;
they are only used for |v| < 2**53."""
from pyvc.speclib import libm_fmod, libm_pow


def chip_add(a, b):
    return a + b


def chip_sub(a, b):
    return a - b


def chip_mul(a, b):
    return a * b


def chip_div(a, b):
    return a / b


def chip_mod(a, b):
    # "mod r a b: r = a mod b (note: NOT a % b)": remainder, made non-negative by adding b
    m = libm_fmod(a, b)
    if m < 0:
        m = m + b
    return m


def chip_pow(a, b):
    return libm_pow(a, b)


def chip_and(a, b):
    return float(int(a) & int(b))


def chip_or(a, b):
    return float(int(a) | int(b))


def chip_xor(a, b):
    return float(int(a) ^ int(b))


def chip_nor(a, b):
    return float(~(int(a) | int(b)))


def chip_not(a):
    return float(~int(a))


def chip_sll(a, b):
    return float(int(a) << int(b))


def chip_srl(a, b):
    # logical shift; equals the arithmetic shift for non-negative a (the only domain claimed)
    return float(int(a) >> int(b))


def chip_seq(a, b):
    return 1.0 if a == b else 0.0


def chip_sne(a, b):
    return 1.0 if a != b else 0.0


def chip_slt(a, b):
    return 1.0 if a < b else 0.0


def chip_sgt(a, b):
    return 1.0 if a > b else 0.0


def chip_sle(a, b):
    return 1.0 if a <= b else 0.0


def chip_sge(a, b):
    return 1.0 if a >= b else 0.0


def chip_seqz(a):
    return 1.0 if a == 0 else 0.0


def chip_select(a, b, c):
    return b if a != 0 else c


def chip_neg_sub(a):
    # the dialect lowers unary minus to `sub r 0 a`
    return 0.0 - a


BINARY = {
    "add": chip_add, "sub": chip_sub, "mul": chip_mul, "div": chip_div, "mod": chip_mod, "pow": chip_pow,
    "and": chip_and, "or": chip_or, "xor": chip_xor, "nor": chip_nor, "sll": chip_sll, "srl": chip_srl,
    "seq": chip_seq, "sne": chip_sne, "slt": chip_slt, "sgt": chip_sgt, "sle": chip_sle, "sge": chip_sge,
}
UNARY = {"not": chip_not, "seqz": chip_seqz}


def branch_taken(suffix, a, b):
    """b<suffix> a b target: is the branch taken?"""
    if suffix == "eq":
        return a == b
    if suffix == "ne":
        return a != b
    if suffix == "lt":
        return a < b
    if suffix == "le":
        return a <= b
    if suffix == "gt":
        return a > b
    if suffix == "ge":
        return a >= b
    raise ValueError(suffix)
