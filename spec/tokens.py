"""Specification of the token-level functions (HASH/STR literals, numbers).  Trusted; from the
property statements: HASH("s") = signed CRC-32 of UTF-8(s); STR("s") = big-endian byte packing."""
import z3

from pyvc import pysem as S
from pyvc.speclib import uninterpreted
from pyvc.values import *
from spec.crc32 import crc32_signed_bytes

from pyvc.strings import UF_ENCODE

# CRC-32 of a byte string as an uninterpreted function into [0, 2**32): the polynomial arithmetic is not
# re-proved symbolically; zlib.crc32 is assumed to compute it (cross-checked natively against spec/crc32.py)
UF_CRC32 = z3.Function("crc32_ieee", z3.StringSort(), z3.IntSort())


def crc32_term(st, bytes_term):
    t = UF_CRC32(bytes_term)
    st.assume(z3.And(t >= 0, t < 2**32))
    return t


def _crc_sym(eng, st, args, kwargs, origin):
    (a,) = args
    if isinstance(a, VC):
        return [(st, VC(crc32_signed_bytes(a.py.encode())))]
    u = crc32_term(st, UF_ENCODE(S.to_str_term(a)))
    return [(st, VInt(z3.If(u >= 2**31, u - 2**32, u)))]


@uninterpreted(_crc_sym)
def crc32_signed(s):
    """signed 32-bit CRC-32 of the UTF-8 encoding of s"""
    return crc32_signed_bytes(s.encode())


def hash_literal(s):
    return 'HASH("' + s + '")'


def str_literal(s):
    return 'STR("' + s + '")'


def pack_str(s):
    """big-endian packing of the characters' code points, one byte each"""
    v = 0
    for ch in s:
        v = v * 256 + ord(ch)
    return v
