"""Specification of the token-level functions (HASH/STR literals, numbers).  Trusted; from the
property statements: HASH("s") = signed CRC-32 of UTF-8(s); STR("s") = big-endian byte packing."""
import z3

from pyvc import pysem as S
from pyvc.speclib import uninterpreted
from pyvc.values import *
from spec.crc32 import crc32_signed_bytes

_UF_CRC = z3.Function("spec_crc32_signed", z3.StringSort(), z3.IntSort())


def _crc_sym(eng, st, args, kwargs, origin):
    (a,) = args
    if isinstance(a, VC):
        return [(st, VC(crc32_signed_bytes(a.py.encode())))]
    t = _UF_CRC(S.to_str_term(a))
    st.assume(z3.And(t >= -(2**31), t < 2**31))
    return [(st, VInt(t))]


@uninterpreted(_crc_sym)
def crc32_signed(s):
    """signed 32-bit CRC-32 of the UTF-8 encoding of s"""
    return crc32_signed_bytes(s.encode())


def hash_literal(s):
    return 'HASH("' + s + '")'


def str_literal(s):
    return 'STR("' + s + '")'


def pack_str(s):
    """big-endian packing of the characters' code points, one byte each"""
    v = 0
    for ch in s:
        v = v * 256 + ord(ch)
    return v
