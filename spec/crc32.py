"""Bit-serial CRC-32 (IEEE 802.3, reflected, poly 0xEDB88320), independent of zlib (trusted spec)."""


def crc32(data: bytes) -> int:
    crc = 0xFFFFFFFF
    for byte in data:
        crc ^= byte
        for _ in range(8):
            if crc & 1:
                crc = (crc >> 1) ^ 0xEDB88320
            else:
                crc >>= 1
    return crc ^ 0xFFFFFFFF


def crc32_signed_bytes(data: bytes) -> int:
    v = crc32(data)
    return v - (1 << 32) if v >= (1 << 31) else v


# ----------------------------------------------------------------------------------------- forging (native search only)
def _tables():
    t = []
    for n in range(256):
        c = n
        for _ in range(8):
            c = (c >> 1) ^ 0xEDB88320 if c & 1 else c >> 1
        t.append(c)
    rev = {v >> 24: i for i, v in enumerate(t)}
    return t, rev


def forge_ascii(target, tries=4000):
    """an ASCII string whose zlib.crc32 equals `target` (prefix + 4 forged characters, all below 0x80); None if none found.
    Used only to turn a boundary value of the checksum into a concrete input for native replay."""
    import zlib

    t, rev = _tables()
    for k in range(tries):
        prefix = f"n{k}_".encode()
        reg = zlib.crc32(prefix) ^ 0xFFFFFFFF  # internal register after the prefix
        want = target ^ 0xFFFFFFFF
        # walk the register backwards from `want` through 4 table steps
        idx = []
        w = want
        for _ in range(4):
            i = rev[w >> 24]
            idx.append(i)
            w = ((w ^ t[i]) << 8) & 0xFFFFFFFF
        idx.reverse()
        out = []
        r = reg
        for i in idx:
            b = (r ^ i) & 0xFF
            out.append(b)
            r = (r >> 8) ^ t[i]
        s = prefix + bytes(out)
        if all(32 <= b < 0x7F for b in out) and zlib.crc32(s) == target:
            return s.decode("ascii")
    return None
