"""Bit-serial CRC-32 (IEEE 802.3, reflected, poly 0xEDB88320), independent of zlib (trusted spec)."""


def crc32(data: bytes) -> int:
    crc = 0xFFFFFFFF
    for byte in data:
        crc ^= byte
        for _ in range(8):
            if crc & 1:
                crc = (crc >> 1) ^ 0xEDB88320
            else:
                crc >>= 1
    return crc ^ 0xFFFFFFFF


def crc32_signed_bytes(data: bytes) -> int:
    v = crc32(data)
    return v - (1 << 32) if v >= (1 << 31) else v
