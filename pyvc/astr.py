"""Array model of strings for per-position reasoning (DESIGN 3.3): a string is (length Int, Array Int->Int of
code points).  All facts are quantified formulas with explicit triggers (every array read that mentions the
bound variable is offered as an alternative pattern); they are discharged by e-matching only (MBQI off).

Only the operations the targets use are modelled; anything else raises Unsupported (-> undecided)."""
from __future__ import annotations

import z3

from . import pysem as S
from .pysem import exc, vbool
from .state import Raise, fresh
from .values import *

INT = z3.IntSort()
ARR = z3.ArraySort(INT, INT)


class VAStr(V):
    __slots__ = ("n", "a", "is_bytes")

    def __init__(self, n, a, is_bytes=False):
        self.n, self.a, self.is_bytes = n, a, is_bytes

    def __repr__(self):
        return f"VAStr(len={self.n})"


class VChr(V):
    """one character (a str of length 1) given by its code point"""

    __slots__ = ("c",)

    def __init__(self, c):
        self.c = c

    def __repr__(self):
        return f"VChr({self.c})"


def fresh_astr(st, prefix, is_bytes=False):
    n = fresh(prefix + "_len", INT)
    a = fresh(prefix + "_chr", ARR)
    st.assume(n >= 0)
    return VAStr(n, a, is_bytes)


def const_astr(s: str):
    a = z3.K(INT, z3.IntVal(0))
    for i, ch in enumerate(s):
        a = z3.Store(a, i, ord(ch))
    return VAStr(z3.IntVal(len(s)), a)


def as_astr(v):
    if isinstance(v, VAStr):
        return v
    if isinstance(v, VC) and isinstance(v.py, str):
        return const_astr(v.py)
    raise Unsupported(f"array-string view of {v!r}")


def forall_idx(body_fn, reads, lo, hi, name="i"):
    """ForAll i. lo <= i < hi -> body(i), with every read in `reads(i)` as an alternative pattern."""
    i = z3.Const(f"{name}!{next(_ctr)}", INT)
    pats = [p for p in reads(i)]
    return z3.ForAll([i], z3.Implies(z3.And(i >= lo, i < hi), body_fn(i)), patterns=pats)


import itertools

_ctr = itertools.count()


def char_code(v):
    """code point (z3 Int) of a 1-character value"""
    if isinstance(v, VChr):
        return v.c
    if isinstance(v, VC) and isinstance(v.py, str) and len(v.py) == 1:
        return z3.IntVal(ord(v.py))
    return None


def ext_eq(x: VAStr, y: VAStr):
    if z3.eq(x.n, y.n) and z3.eq(x.a, y.a):
        return z3.BoolVal(True)
    return z3.And(x.n == y.n, forall_idx(lambda i: x.a[i] == y.a[i], lambda i: [x.a[i], y.a[i]], 0, x.n, "e"))


# ------------------------------------------------------------------------------------------- operations
def replace(eng, st, s: VAStr, a, b, origin):
    if not (isinstance(a, VC) and isinstance(b, VC) and isinstance(a.py, str) and isinstance(b.py, str) and len(a.py) == 1):
        raise Unsupported("array-string replace with non-constant or multi-character pattern")
    ca = ord(a.py)
    r = fresh_astr(st, "rep", s.is_bytes)
    if len(b.py) == 1:
        eng.use("str.replace(a,b), len(a)=len(b)=1: pointwise character map, length preserved")
        cb = ord(b.py)
        st.assume(r.n == s.n)
        st.assume(forall_idx(lambda i: r.a[i] == z3.If(s.a[i] == ca, z3.IntVal(cb), s.a[i]), lambda i: [r.a[i], s.a[i]], 0, s.n, "r"))
        return [(st, r)]
    if len(b.py) == 0:
        eng.use("str.replace(a,''), len(a)=1: result keeps the prefix before the first a, contains no a, and is exactly that prefix when everything after it is a")
        fo = fresh("first_occ", INT)  # index of the first occurrence of a (or len)
        st.assume(z3.And(fo >= 0, fo <= s.n))
        st.assume(forall_idx(lambda i: s.a[i] != ca, lambda i: [s.a[i]], 0, fo, "f"))
        st.assume(z3.Implies(fo < s.n, s.a[fo] == ca))
        st.assume(z3.And(r.n >= fo, r.n <= s.n))
        st.assume(forall_idx(lambda i: r.a[i] == s.a[i], lambda i: [r.a[i], s.a[i]], 0, fo, "p"))
        st.assume(forall_idx(lambda i: r.a[i] != ca, lambda i: [r.a[i]], 0, r.n, "q"))
        st.assume(z3.Implies(forall_idx(lambda i: s.a[i] == ca, lambda i: [s.a[i]], fo, s.n, "t"), r.n == fo))
        return [(st, r)]
    raise Unsupported("array-string replace by a longer string")


def repeat(eng, st, ch: str, k):
    """ch * k for a 1-character constant"""
    r = fresh_astr(st, "rpt")
    st.assume(r.n == z3.If(k > 0, k, 0))
    c = ord(ch)
    st.assume(forall_idx(lambda i: r.a[i] == c, lambda i: [r.a[i]], 0, r.n, "m"))
    # ground hints for the padding arithmetic (instances of the quantified fact)
    for j in range(3):
        st.assume(z3.Implies(r.n > j, r.a[j] == c))
    return r


def concat(eng, st, x: VAStr, y: VAStr):
    r = fresh_astr(st, "cat", x.is_bytes)
    st.assume(r.n == x.n + y.n)
    st.assume(forall_idx(lambda i: r.a[i] == x.a[i], lambda i: [r.a[i], x.a[i]], 0, x.n, "c"))
    st.assume(forall_idx(lambda i: r.a[i] == y.a[i - x.n], lambda i: [r.a[i]], x.n, r.n, "d"))
    return r


def get_item(eng, st, s: VAStr, idx, origin):
    i = S.to_int_term(idx)
    outs = []
    for sign, j in ((i >= 0, i), (i < 0, i + s.n)):  # no if-then-else inside array reads: they are used as triggers
        sb = eng.branch(st, sign)
        if sb is None:
            continue
        ok = z3.And(j >= 0, j < s.n)
        s1 = eng.branch(sb, ok)
        if s1 is not None:
            outs.append((s1, VChr(s.a[j])))
        s0 = eng.branch(sb, z3.Not(ok))
        if s0 is not None:
            outs.append((s0, exc("IndexError", "string index out of range", origin)))
    return outs


def method(eng, st, recv: VAStr, name, args, kwargs, origin):
    if name == "replace" and len(args) == 2:
        return replace(eng, st, recv, args[0], args[1], origin)
    if name == "decode" and recv.is_bytes:
        # ASCII bytes produced by base64: decoding is the identity on code points
        eng.use("bytes.decode() of ASCII bytes is the identity on code points")
        return [(st, VAStr(recv.n, recv.a, False))]
    if name == "encode" and not recv.is_bytes:
        raise Unsupported("encode of array-string")
    raise Unsupported(f"method {name} on array-string at {origin}")


def eq_values(eng, st, a, b):
    """== where at least one side is VAStr / VChr; returns python bool / z3 Bool / None (not handled)"""
    if isinstance(a, VChr) or isinstance(b, VChr):
        ca, cb = char_code(a), char_code(b)
        if ca is not None and cb is not None:
            return ca == cb
        if isinstance(a, VC) or isinstance(b, VC):
            return False  # a 1-character string never equals a longer/shorter constant or a non-string
        return None
    if isinstance(a, VAStr) or isinstance(b, VAStr):
        other = b if isinstance(a, VAStr) else a
        if isinstance(other, VAStr) or (isinstance(other, VC) and isinstance(other.py, str)):
            return ext_eq(as_astr(a), as_astr(b))
        return False
    return None


def contains(eng, st, container, item):
    """item in container for VChr in constant string; -> z3 Bool | None"""
    if isinstance(item, VChr) and isinstance(container, VC) and isinstance(container.py, str):
        codes = sorted(set(ord(c) for c in container.py))
        # contiguous ranges keep the formula small
        parts, i = [], 0
        while i < len(codes):
            j = i
            while j + 1 < len(codes) and codes[j + 1] == codes[j] + 1:
                j += 1
            parts.append(item.c == codes[i] if i == j else z3.And(item.c >= codes[i], item.c <= codes[j]))
            i = j + 1
        return z3.Or(*parts) if parts else z3.BoolVal(False)
    return None
