"""Discharge of verification conditions: z3 first, cvc5 (CLI, SMT-LIB2 export) for z3's unknowns."""
from __future__ import annotations

import os
import shutil
import subprocess
import tempfile

import z3

CVC5 = shutil.which("cvc5") or "/usr/bin/cvc5"


def _has_quantifier(fs):
    seen = set()
    stack = list(fs)
    while stack:
        t = stack.pop()
        if t.get_id() in seen:
            continue
        seen.add(t.get_id())
        if z3.is_quantifier(t):
            return True
        stack.extend(t.children())
    return False


def check_valid(pc, goal, timeout_s=20.0, want_model=True, second_opinion=True):
    """Is  /\\ pc  =>  goal  valid?
    -> ("valid", None, backend) | ("invalid", model, "") | ("unknown", None, reason)"""
    fs = list(pc) + [z3.Not(goal)]
    s = z3.Solver()
    quant = _has_quantifier(fs)
    if quant:
        # trigger-based instantiation only: 'unsat' is trustworthy and fast, no model finding
        s.set("auto_config", False)
        s.set("smt.mbqi", False)
    s.set("timeout", int(timeout_s * 1000))
    s.add(*fs)
    r = s.check()
    if r == z3.unsat:
        return "valid", None, "z3"
    if r == z3.sat and not quant:
        m = s.model()
        # z3's sequence solver occasionally answers sat with a model that does not satisfy the query
        # (strings under uninterpreted functions): only a validated model counts as a refutation
        try:
            ok = all(z3.is_true(m.eval(f, model_completion=True)) for f in fs)
        except z3.Z3Exception:
            ok = False
        if ok:
            return "invalid", m, ""
        r = z3.unknown
        bogus = True
    else:
        bogus = False
    ru = ("sat, but the model does not validate" if bogus else s.reason_unknown()) if r == z3.unknown else "sat under e-matching only (no model)"
    # NOPROOF = the instantiation procedure terminated without a refutation (a definite "not proved");
    # anything else (timeout, cancel, memory) is a resource limit and never counts against the code
    definite = (r == z3.sat or ("incomplete" in ru and "timeout" not in ru and "cancel" not in ru)) and not bogus
    reason = ("NOPROOF " if definite else "RESOURCE ") + "z3: " + ru
    if not second_opinion:
        return "unknown", None, reason
    # second opinion
    r2 = _cvc5(s, timeout_s)
    if r2 == "unsat":
        return "valid", None, "cvc5"
    return "unknown", None, reason + (f"; cvc5: {r2}" if r2 else "")


def _cvc5(solver, timeout_s):
    if not os.path.exists(CVC5):
        return ""
    try:
        txt = solver.to_smt2()
    except Exception as e:  # pragma: no cover
        return f"export failed: {e}"
    txt = "(set-logic ALL)\n" + txt
    with tempfile.NamedTemporaryFile("w", suffix=".smt2", delete=False) as f:
        f.write(txt)
        fn = f.name
    try:
        p = subprocess.run([CVC5, "--strings-exp", f"--tlimit={int(timeout_s * 1000)}", fn], capture_output=True, text=True, timeout=timeout_s + 5)
        out = (p.stdout or "").strip().splitlines()
        return out[0] if out else (p.stderr or "").strip()[:200]
    except subprocess.TimeoutExpired:
        return "timeout"
    finally:
        os.unlink(fn)
