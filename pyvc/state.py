"""Execution state of the symbolic executor: frames, store, path condition, ghost effects."""
from __future__ import annotations

import itertools

import z3

from .values import *

_counter = itertools.count()


def fresh(prefix, sort):
    return z3.Const(f"{prefix}!{next(_counter)}", sort)


class State:
    def __init__(self):
        self.frames = [{}]  # innermost last
        self.store = {}  # oid -> list | dict | set-as-dict | record dict
        self.pc = []  # path condition (z3 Bool terms)
        self.ghost = {}  # effect counters etc.
        self.globals = {}  # per-run module globals that were assigned
        self.obligations = []  # side obligations collected on this path: (id, formula)
        self.events = []  # ordered effect log (strings / tuples)
        self.facts = set()  # ids of pc entries that are assumed facts (axiom instances), not branch conditions

    @property
    def env(self):
        return self.frames[-1]

    def fork(self):
        s = State.__new__(State)
        s.frames = [dict(f) for f in self.frames]
        s.store = {k: (list(v) if isinstance(v, list) else dict(v)) for k, v in self.store.items()}
        s.pc = list(self.pc)
        s.ghost = dict(self.ghost)
        s.globals = dict(self.globals)
        s.obligations = list(self.obligations)
        s.events = list(self.events)
        s.facts = set(self.facts)
        return s

    def alloc(self, content):
        oid = next(_counter)
        self.store[oid] = content
        return oid

    def new_list(self, items):
        return VList(self.alloc(list(items)))

    def new_dict(self, d):
        return VDict(self.alloc(dict(d)))

    def new_set(self, items):
        return VSet(self.alloc({k: True for k in items}))

    def new_obj(self, cls, fields):
        d = dict(fields)
        d["__class__"] = cls
        return VObj(self.alloc(d))

    def assume(self, f):
        self.pc.append(f)
        self.facts.add(f.get_id())


class Outcome:
    __slots__ = ("kind", "st", "val")

    def __init__(self, kind, st, val=None):
        self.kind = kind  # normal | return | raise | break | continue
        self.st = st
        self.val = val

    def __repr__(self):
        return f"Outcome({self.kind}, {self.val})"


class Raise:
    """Marker returned from expression evaluation when the expression raised."""

    __slots__ = ("exc",)

    def __init__(self, exc):
        self.exc = exc
