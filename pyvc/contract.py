"""Contracts on real functions, VC generation per contract, discharge, counterexample extraction."""
from __future__ import annotations

import itertools
import time

import z3

from . import pysem as S
from .loops import eval_pred
from .report import DISCHARGED, UNDECIDED, VIOLATED, Ob
from .smt import check_valid
from .state import Raise, State, fresh
from .symexec import Engine
import os

DEBUG = bool(os.environ.get("PYVC_DEBUG"))
from .values import *


# ------------------------------------------------------------------------------- kinds
class Kind:
    """A static kind of a parameter: creates the symbolic value and reads it back from a model."""

    name = "?"

    def make(self, st, pname):
        raise NotImplementedError

    def from_model(self, model, v):
        raise NotImplementedError


class KInt(Kind):
    name = "int"

    def __init__(self, lo=None, hi=None):
        self.lo, self.hi = lo, hi

    def make(self, st, pname):
        t = fresh(pname, z3.IntSort())
        if self.lo is not None:
            st.assume(t >= self.lo)
        if self.hi is not None:
            st.assume(t <= self.hi)
        return VInt(t)

    def from_model(self, model, v):
        return model.eval(v.t, model_completion=True).as_long()


class KBool(Kind):
    name = "bool"

    def make(self, st, pname):
        return VBool(fresh(pname, z3.BoolSort()))

    def from_model(self, model, v):
        return z3.is_true(model.eval(v.t, model_completion=True))


class KFloat(Kind):
    """finite=True: NaN and infinities are outside the stated domain."""

    def __init__(self, finite=True):
        self.finite = finite
        self.name = "float" if finite else "float(any)"

    def make(self, st, pname):
        t = fresh(pname, F64)
        if self.finite:
            st.assume(z3.Not(z3.Or(z3.fpIsNaN(t), z3.fpIsInf(t))))
        return VFloat(t)

    def from_model(self, model, v):
        return fp_value(model.eval(v.t, model_completion=True))


class KIntFloat(Kind):
    """A Python int whose value is exactly representable as a double (|v| <= 2**53): carried as an
    integral FP term; float(v), comparisons and arithmetic agree with exact integer semantics there."""

    name = "int(|v|<=2**53)"

    def make(self, st, pname):
        t = fresh(pname, F64)
        st.assume(z3.Not(z3.Or(z3.fpIsNaN(t), z3.fpIsInf(t))))
        st.assume(z3.fpEQ(z3.fpRoundToIntegral(RTZ, t), t))
        st.assume(z3.fpLEQ(z3.fpAbs(t), S.fpv(2.0**53)))
        return VInt(bv=z3.fpToSBV(RTZ, t, BV64), fp=t)

    def from_model(self, model, v):
        val = model.eval(v.bv, model_completion=True).as_signed_long()
        return val


class KStr(Kind):
    name = "str"

    def __init__(self, maxlen=None):
        self.maxlen = maxlen

    def make(self, st, pname):
        t = fresh(pname, z3.StringSort())
        if self.maxlen is not None:
            st.assume(z3.Length(t) <= self.maxlen)
        return VStr(t)

    def from_model(self, model, v):
        return model.eval(v.t, model_completion=True).as_string()


class KConst(Kind):
    def __init__(self, py):
        self.py = py
        self.name = repr(py)

    def make(self, st, pname):
        return S.lift(self.py)

    def from_model(self, model, v):
        return self.py


class KOpaque(Kind):
    _sorts = {}

    def __init__(self, tag):
        self.tag = tag
        self.name = tag

    def make(self, st, pname):
        if self.tag not in KOpaque._sorts:
            KOpaque._sorts[self.tag] = z3.DeclareSort("Opq_" + self.tag.replace(":", "_"))
        return VOpq(self.tag, fresh(pname, KOpaque._sorts[self.tag]))

    def from_model(self, model, v):
        return f"<{self.tag} {model.eval(v.t, model_completion=True)}>"


class KCustom(Kind):
    def __init__(self, name, make, from_model=None):
        self.name = name
        self._make = make
        self._fm = from_model

    def make(self, st, pname):
        return self._make(st, pname)

    def from_model(self, model, v):
        return self._fm(model, v) if self._fm else None


def fp_value(t):
    """z3 FP numeral -> python float"""
    if z3.is_fp_value(t) or True:
        try:
            if t.isNaN():
                return float("nan")
            if t.isInf():
                return float("-inf") if t.isNegative() else float("inf")
            if t.isZero():
                return -0.0 if t.isNegative() else 0.0
            sig = t.significand_as_long()
            ex = t.exponent_as_long(biased=True)
            neg = t.isNegative()
            import struct

            bits = (int(neg) << 63) | (ex << 52) | sig
            return struct.unpack(">d", struct.pack(">Q", bits))[0]
        except Exception:
            pass
    return float(eval(str(t)))


# ------------------------------------------------------------------------------- contract
class Contract:
    """
    name      obligation-id prefix, e.g. 'utils.format_int'
    fun       VFun (def/lambda AST extracted from the real source) or callable (eng)->VFun
    params    [(param name, [Kind, ...])]   one VC set per element of the product
    pre       python def (params...) -> bool            (symbolic + native)
    post      {clause: python def (params..., result) -> bool}
    raises    {exception class name: python def (params...) -> bool | True}  allowed exceptional exits
    native    callable(*python args) -> python result, calling the REAL function (replay)
    """

    def __init__(self, name, fun, params, pre=None, post=None, raises=None, native=None,
                 world=None, classes=None, loop_specs=None, setup=None, timeout=60.0, domain_ok=True,
                 result_view=None, ghost=(), search=None, describe=None, axioms=None):
        self.name = name
        self.fun = fun
        self.params = params
        self.pre = pre
        self.post = post or {}
        self.raises = raises or {}
        self.native = native
        self.world = world or {}
        self.classes = classes or {}
        self.loop_specs = loop_specs or {}
        self.setup = setup
        self.timeout = timeout
        self.result_view = result_view
        self.ghost = tuple(ghost)  # parameter names that only the specification sees
        self.search = search  # callable(clause) -> (witness dict, observed text) | None: native counterexample search
        self.describe = describe
        self.axioms = axioms  # callable(eng) adding global axioms (assumed library contracts)

    # used when another function under contract calls this one (modular reasoning)
    def apply(self, eng, st, args, kwargs, origin):
        raise Unsupported("callee contract application not configured for " + self.name)


def prove_contract(c: Contract, tier="quick"):
    """-> (list[Ob], info dict).  Runs in a worker process."""
    obs = []
    info = {"paths": 0, "assumptions": set(), "combos": 0}
    names = [p for p, _ in c.params]
    for combo in itertools.product(*[ks for _, ks in c.params]):
        tag = ",".join(k.name for k in combo)
        info["combos"] += 1
        t0 = time.time()
        try:
            obs.extend(_prove_combo(c, names, combo, tag, info))
        except Unsupported as e:
            obs.append(Ob(f"{c.name}#subset[{tag}]", UNDECIDED, detail={"reason": "outside verified subset: " + str(e)}, target=c.name, time_s=time.time() - t0))
    info["assumptions"] = sorted(info["assumptions"])
    return obs, info


def _prove_combo(c, names, combo, tag, info):
    obs = []
    eng = Engine(world=c.world, classes=c.classes, feas_timeout_ms=getattr(c, "feas_timeout_ms", 2000))
    eng.loop_specs = dict(c.loop_specs)
    st = State()
    args = [k.make(st, n) for n, k in zip(names, combo)]
    if c.setup:
        c.setup(eng, st, dict(zip(names, args)))
    if c.axioms:
        c.axioms(eng)
    fun = c.fun(eng) if callable(c.fun) and not isinstance(c.fun, VFun) else c.fun
    if c.pre is not None:
        st.assume(eval_pred(eng, st, c.pre, args))
    # vacuity guard: the precondition must be satisfiable for this kind combination
    t0 = time.time()
    r, model, why = check_valid(eng.axioms + st.pc, z3.BoolVal(False), c.timeout, second_opinion=False)
    if r == "unknown" and str(why).startswith("NOPROOF"):
        # quantified hypotheses: no model can be produced, but trigger-based instantiation terminated without
        # deriving false -- the vacuity guard that is available for quantified contracts
        obs.append(Ob(f"{c.name}#pre.reachable[{tag}]", DISCHARGED, detail={"note": "false is not derivable from precondition + assumed axioms by trigger-based instantiation (quantified: no model available)"}, target=c.name, time_s=time.time() - t0))
        r = None
    if r == "valid":
        # precondition unsatisfiable for this combination: nothing to prove, but say so
        obs.append(Ob(f"{c.name}#pre.reachable[{tag}]", DISCHARGED, detail={"note": "kind combination excluded by precondition (vacuous)", "vacuous": True}, target=c.name, time_s=time.time() - t0))
        return obs
    if r is not None:
        obs.append(Ob(f"{c.name}#pre.reachable[{tag}]", DISCHARGED if r == "invalid" else UNDECIDED,
                      detail={} if r == "invalid" else {"reason": why}, target=c.name, time_s=time.time() - t0))
    call_args = [a for n, a in zip(names, args) if n not in c.ghost]
    outcomes = eng.call(st, fun, call_args, {}, c.name)
    missing = [h[0] for h in (getattr(eng, "ghost_hooks", None) or []) if h[0] not in getattr(eng, "ghost_hooks_fired", set())]
    if missing:
        # the code no longer contains the statements the ghost code is attached to: the sidecar is out of date, which is
        # not a statement about the property
        raise Unsupported(f"sidecar out of date: ghost code attached to {missing} matched no statement of the function")
    info["paths"] += len(outcomes)
    info["assumptions"].update(eng.assumptions_used)
    # group queries per obligation id
    groups = {}
    reach, reach_seen = [], set()

    def conjuncts(g):
        if z3.is_and(g):
            return [x for ch in g.children() for x in conjuncts(ch)]
        if z3.is_or(g):
            live = [ch for ch in g.children() if not (z3.is_false(ch) or (z3.is_and(ch) and any(z3.is_false(x) for x in conjuncts(ch))))]
            if len(live) == 1:
                return conjuncts(live[0])
        return [g]

    def add_query(oid, pc, goal, path_desc):
        # a conjunction is proved conjunct by conjunct (smaller queries; the failing clause is named)
        parts = conjuncts(goal) if getattr(c, "split_conjunctions", False) else [goal]
        for i, g in enumerate(parts):
            groups.setdefault(oid, []).append((list(pc) + parts[:i], g, path_desc if len(parts) == 1 else f"{path_desc} conjunct {i + 1}/{len(parts)}: {str(g)[:160]}"))

    for s, v in outcomes:
        pc = eng.axioms + s.pc
        for oid, formula in s.obligations:
            full = f"{c.name}#{oid.split('@', 1)[1].replace('#', '.')}[{tag}]" if "@" in oid else f"{c.name}#{oid}[{tag}]"
            if isinstance(formula, tuple) and formula[0] == "reachable":
                if (full, id(formula)) not in reach_seen:
                    reach_seen.add((full, id(formula)))
                    reach.append((full, eng.axioms + formula[1], oid))
                continue
            add_query(full, pc, formula, oid)
        if isinstance(v, Raise):
            e = v.exc
            if e.cls == "<loop-end>":
                continue
            allowed = c.raises.get(e.cls)
            if allowed is None:
                for base, cond in c.raises.items():
                    if exc_is_subclass(e.cls, base):
                        allowed = cond
                        break
            if allowed is True:
                continue
            if allowed is None:
                add_query(f"{c.name}#exc.{e.cls}[{tag}]", pc, z3.BoolVal(False), f"raises {e.cls} at {e.origin}")
            else:
                add_query(f"{c.name}#exc.{e.cls}[{tag}]", pc, eval_pred(eng, s, allowed, args), f"raises {e.cls} at {e.origin}")
            continue
        res = c.result_view(eng, s, v) if c.result_view else v
        for clause, fn in c.post.items():
            goal = eval_pred(eng, s, fn, args + [res])
            add_query(f"{c.name}#{clause}[{tag}]", pc, goal, "normal return")
    for full, hyps, desc in reach:
        t0 = time.time()
        r, model, why = check_valid(hyps, z3.BoolVal(False), c.timeout, second_opinion=False)
        if r == "valid":
            obs.append(Ob(full, UNDECIDED, detail={"reason": "contract defect: the hypotheses of this proof step are contradictory (everything after it would be vacuous)", "path": desc}, target=c.name, time_s=time.time() - t0))
        else:
            obs.append(Ob(full, DISCHARGED, detail={"note": "false is not derivable from the step's hypotheses" + ("" if r == "invalid" else " by trigger-based instantiation (quantified: no model available)")}, target=c.name, time_s=time.time() - t0))
    for oid, qs in groups.items():
        t0 = time.time()
        verdict, detail, witness = DISCHARGED, {"paths": len(qs)}, None
        backend = "z3"
        for pc, goal, desc in qs:
            r, model, why = check_valid(pc, goal, c.timeout)
            if DEBUG:
                print(f"[pyvc] {oid[-40:]} :: {desc[:200]!r} -> {r} {str(why)[:80]} {time.time() - t0:.1f}s", flush=True)
                if r != "valid":
                    continue
            if r == "valid":
                if why:
                    backend = why
                continue
            if r == "invalid":
                verdict = VIOLATED
                witness = {}
                for n, k, a in zip(names, combo, args):
                    try:
                        witness[n] = k.from_model(model, a)
                    except Exception as ex:  # model lacks the value
                        witness[n] = f"<unavailable: {ex}>"
                detail = {"path": desc, "kinds": tag}
                break
            verdict = UNDECIDED
            detail = {"reason": f"solver: {why}", "path": desc}
            break
        obs.append(Ob(oid, verdict, detail=detail, witness=witness, target=c.name, time_s=time.time() - t0, backend=backend))
    return obs
