"""Encoding of Python operators, coercions and truthiness (DESIGN 3.3 / 4).

Every function returns a list of (state, value-or-Raise) so that operations that can raise
or whose result kind depends on the operands fork the path.
"""
from __future__ import annotations

import math

import z3

from .state import Raise, State, fresh
from .values import *

# ---- shared uninterpreted functions (assumption A-libm) -------------------
UF_FMOD = z3.Function("libm_fmod", F64, F64, F64)
UF_POW = z3.Function("libm_pow", F64, F64, F64)
UF_POW_OVF = z3.Function("py_pow_overflows", F64, F64, z3.BoolSort())
UF_I2F = z3.Function("py_float_of_int", z3.IntSort(), F64)
UF_STR_OF_INT = None  # native z3 IntToStr is used
_math_ufs = {}


def math_uf(name, arity):
    key = (name, arity)
    if key not in _math_ufs:
        _math_ufs[key] = z3.Function("libm_" + name, *([F64] * arity), F64)
    return _math_ufs[key]


def fmod_term(eng, st, x, y):
    """libm fmod as an uninterpreted function with the facts of C99 7.12.10.1 that the proofs use."""
    eng.use("A-libm(fmod): for finite x and finite non-zero y, fmod(x,y) is finite, |fmod(x,y)| < |y|, and is zero or has the sign of x")
    m = UF_FMOD(x, y)
    fin = lambda t: z3.Not(z3.Or(z3.fpIsNaN(t), z3.fpIsInf(t)))
    st.assume(z3.Implies(z3.And(fin(x), fin(y), z3.Not(z3.fpIsZero(y))),
                         z3.And(fin(m), z3.fpLT(z3.fpAbs(m), z3.fpAbs(y)),
                                z3.Or(z3.fpIsZero(m), z3.fpIsNegative(m) == z3.fpIsNegative(x)))))
    return m


def fpv(x: float):
    return z3.FPVal(x, F64)


def is_conc(v):
    return isinstance(v, VC)


def lift(py):
    """Concrete python value -> V."""
    if isinstance(py, V):
        return py
    if isinstance(py, tuple):
        return VTuple([lift(x) for x in py])
    return VC(py)


def exc(cls, msg="", origin=""):
    return Raise(VExc(cls, (VC(msg),), origin=origin))


# ---- conversions to z3 ------------------------------------------------------
def to_int_term(v):
    if isinstance(v, VC):
        if isinstance(v.py, bool):
            return z3.IntVal(int(v.py))
        if isinstance(v.py, int):
            return z3.IntVal(v.py)
    if isinstance(v, VInt):
        if v.t is not None:
            return v.t
        return z3.BV2Int(v.bv, True)
    if isinstance(v, VBool):
        return z3.If(v.t, z3.IntVal(1), z3.IntVal(0))
    raise Unsupported(f"int term of {v!r}")


def to_bv(v):
    if isinstance(v, VInt) and v.bv is not None:
        return v.bv
    if isinstance(v, VC) and isinstance(v.py, int) and -(2**63) <= int(v.py) < 2**63:
        return z3.BitVecVal(int(v.py), 64)
    if isinstance(v, VBool):
        return z3.If(v.t, z3.BitVecVal(1, 64), z3.BitVecVal(0, 64))
    return None


def to_fp(v):
    """Numeric V -> FP term of float(v)."""
    if isinstance(v, VFloat):
        return v.t
    if isinstance(v, VC):
        if isinstance(v.py, (bool, int)):
            return fpv(float(v.py))
        if isinstance(v.py, float):
            return fpv(v.py)
    if isinstance(v, VBool):
        return z3.If(v.t, fpv(1.0), fpv(0.0))
    if isinstance(v, VInt):
        if v.fp is not None:
            return v.fp
        if v.bv is not None:
            return z3.fpSignedToFP(RNE, v.bv, F64)
        return UF_I2F(v.t)
    raise Unsupported(f"float of {v!r}")


def to_str_term(v):
    if isinstance(v, VStr):
        return v.t
    if isinstance(v, VC) and isinstance(v.py, str):
        return z3.StringVal(v.py)
    raise Unsupported(f"str term of {v!r}")


def is_num(v):
    return isinstance(v, (VInt, VBool, VFloat)) or (isinstance(v, VC) and isinstance(v.py, (int, float, bool)) )


def is_intlike(v):
    return isinstance(v, (VInt, VBool)) or (isinstance(v, VC) and isinstance(v.py, (int, bool)))


def is_floatlike(v):
    return isinstance(v, VFloat) or (isinstance(v, VC) and isinstance(v.py, float))


def is_strlike(v):
    return isinstance(v, VStr) or (isinstance(v, VC) and isinstance(v.py, str))


def type_name(v, st=None):
    if isinstance(v, VC):
        return type(v.py).__name__
    return {
        VInt: "int", VBool: "bool", VFloat: "float", VStr: "str", VTuple: "tuple", VList: "list",
        VDict: "dict", VSet: "set", VComplex: "complex", VBytes: "bytes",
    }.get(type(v), {"VAStr": "str", "VChr": "str"}.get(type(v).__name__, type(v).__name__))


# ---- truthiness ---------------------------------------------------------------
ALWAYS_TRUE_TAGS = {"register"}  # instances of plain classes without __bool__ / __len__ (IC10Register is a dataclass)


def truth(st: State, v):
    """-> python bool or z3 Bool"""
    if isinstance(v, VC):
        return bool(v.py)
    if isinstance(v, VBool):
        return v.t
    if isinstance(v, VInt):
        if v.bv is not None:
            return v.bv != z3.BitVecVal(0, 64)
        return v.t != 0
    if isinstance(v, VFloat):
        return z3.Not(z3.fpIsZero(v.t))
    if isinstance(v, VStr):
        return z3.Length(v.t) > 0
    if type(v).__name__ == "VAStr":
        return v.n > 0
    if type(v).__name__ == "VChr":
        return True
    if isinstance(v, VTuple):
        return len(v.items) > 0
    if isinstance(v, (VList, VDict, VSet)):
        c = st.store[v.oid]
        if isinstance(c, dict) and "__sym__" in c:
            return c["__sym__"].nonempty(st)
        return len(c) > 0
    if isinstance(v, (VObj, VFun, VMod, VType, VExc)):
        return True
    if isinstance(v, VOpq) and v.tag in ALWAYS_TRUE_TAGS:
        return True
    if isinstance(v, VOpq):
        # opaque objects: truthiness is an uninterpreted predicate of the object
        f = z3.Function("truthy_" + v.tag, v.t.sort(), z3.BoolSort())
        return f(v.t)
    raise Unsupported(f"truth of {v!r}")


def vbool(b):
    if isinstance(b, bool):
        return VC(b)
    b = z3.simplify(b)
    if z3.is_true(b):
        return VC(True)
    if z3.is_false(b):
        return VC(False)
    return VBool(b)


# ---- binary operators -----------------------------------------------------------
def _conc_binop(op, a, b):
    import operator as o

    f = {
        "+": o.add, "-": o.sub, "*": o.mul, "/": o.truediv, "//": o.floordiv, "%": o.mod, "**": o.pow,
        "&": o.and_, "|": o.or_, "^": o.xor, "<<": o.lshift, ">>": o.rshift,
    }[op]
    return f(a, b)


def binop(eng, st, op, a, b, origin=""):
    """Python binary arithmetic operator on values. -> [(st, value|Raise)]"""
    if isinstance(a, VC) and isinstance(b, VC):
        try:
            return [(st, lift(_conc_binop(op, a.py, b.py)))]
        except Exception as e:
            return [(st, exc(type(e).__name__, str(e), origin))]
    from . import astr

    if op == "+" and (isinstance(a, astr.VAStr) or isinstance(b, astr.VAStr)) and (is_strlike(a) or isinstance(a, astr.VAStr)) and (is_strlike(b) or isinstance(b, astr.VAStr)):
        if isinstance(a, VStr) or isinstance(b, VStr):
            raise Unsupported("mixing native and array strings")
        return [(st, astr.concat(eng, st, astr.as_astr(a), astr.as_astr(b)))]
    if op == "*" and eng.world.get("__astr__") and isinstance(a, VC) and isinstance(a.py, str) and len(a.py) == 1 and is_intlike(b) and not isinstance(b, VC):
        return [(st, astr.repeat(eng, st, a.py, to_int_term(b)))]
    # strings
    if is_strlike(a) and is_strlike(b) and op == "+":
        return [(st, VStr(z3.Concat(to_str_term(a), to_str_term(b))))]
    if is_strlike(a) and op == "*" and is_intlike(b):
        if isinstance(b, VC) and isinstance(a, VC):
            return [(st, VC(a.py * b.py))]
        # "=" * k : model by an uninterpreted repeat function with length axiom
        return [(st, eng.str_repeat(st, a, b))]
    if isinstance(a, VTuple) and isinstance(b, VTuple) and op == "+":
        return [(st, VTuple(a.items + b.items))]
    if isinstance(a, VList) and isinstance(b, VList) and op == "+":
        return [(st, st.new_list(st.store[a.oid] + st.store[b.oid]))]
    if isinstance(a, VComplex) or isinstance(b, VComplex):
        return [(st, VComplex())]
    if not (is_num(a) and is_num(b)):
        if is_strlike(a) or is_strlike(b) or isinstance(a, (VC, VTuple, VList)) or isinstance(b, (VC, VTuple, VList)):
            return [(st, exc("TypeError", f"unsupported operand type(s) for {op}: '{type_name(a)}' and '{type_name(b)}'", origin))]
        raise Unsupported(f"binop {op} on {a!r}, {b!r}")

    if op in ("&", "|", "^", "<<", ">>"):
        if is_floatlike(a) or is_floatlike(b):
            return [(st, exc("TypeError", f"unsupported operand type(s) for {op}: float", origin))]
        return _bitop(eng, st, op, a, b, origin)

    if is_floatlike(a) or is_floatlike(b) or op == "/":
        return _float_binop(eng, st, op, to_fp(a), to_fp(b), origin)

    # int op int
    if op == "**":
        raise Unsupported("symbolic int ** int")
    x, y = to_int_term(a), to_int_term(b)
    if op == "+":
        return [(st, VInt(x + y))]
    if op == "-":
        return [(st, VInt(x - y))]
    if op == "*":
        return [(st, VInt(x * y))]
    if op in ("//", "%"):
        outs = []
        zero = y == 0
        for cond, val in ((zero, None), (z3.Not(zero), 1)):
            s2 = eng.branch(st, cond)
            if s2 is None:
                continue
            if val is None:
                outs.append((s2, exc("ZeroDivisionError", "integer division or modulo by zero", origin)))
            else:
                # python floor semantics: result of % has the sign of the divisor
                q = z3.If(y > 0, x / y, -((-x) / (-y))) if False else None
                # z3 Int div is euclidean (remainder >= 0); convert to floor division
                zq = x / y
                zr = x % y
                fl_q = z3.If(z3.Or(y > 0, zr == 0), zq, zq - 1) if False else None
                # floor(x/y): for y>0 euclid == floor. for y<0: euclid rem >=0; floor rem <=0
                fq = z3.If(y > 0, zq, z3.If(zr == 0, zq, zq - 1))
                fr = z3.If(y > 0, zr, z3.If(zr == 0, zr, zr + y))
                outs.append((s2, VInt(fq if op == "//" else fr)))
        return outs
    raise Unsupported(f"int binop {op}")


def _float_binop(eng, st, op, x, y, origin):
    if op == "+":
        return [(st, VFloat(z3.fpAdd(RNE, x, y)))]
    if op == "-":
        return [(st, VFloat(z3.fpSub(RNE, x, y)))]
    if op == "*":
        return [(st, VFloat(z3.fpMul(RNE, x, y)))]
    if op in ("/", "%", "//"):
        outs = []
        s0 = eng.branch(st, z3.fpIsZero(y))
        if s0 is not None:
            outs.append((s0, exc("ZeroDivisionError", "float division by zero", origin)))
        s1 = eng.branch(st, z3.Not(z3.fpIsZero(y)))
        if s1 is not None:
            if op == "/":
                outs.append((s1, VFloat(z3.fpDiv(RNE, x, y))))
            elif op == "%":
                # CPython float_rem: mod = fmod(x, y); if mod: if (y<0) != (mod<0): mod += y  else: mod = copysign(0, y)
                m = fmod_term(eng, s1, x, y)
                res = z3.If(
                    z3.Not(z3.fpIsZero(m)),
                    z3.If(z3.fpLT(y, fpv(0.0)) != z3.fpLT(m, fpv(0.0)), z3.fpAdd(RNE, m, y), m),
                    z3.If(z3.fpIsNegative(y), fpv(-0.0), fpv(0.0)),
                )
                outs.append((s1, VFloat(res)))
            else:
                raise Unsupported("float //")
        return outs
    if op == "**":
        outs = []
        zero = fpv(0.0)
        integral = z3.fpEQ(z3.fpRoundToIntegral(RTZ, y), y)
        finite = lambda t: z3.Not(z3.Or(z3.fpIsNaN(t), z3.fpIsInf(t)))
        c_zdiv = z3.And(z3.fpIsZero(x), z3.fpLT(y, zero))
        c_cplx = z3.And(z3.fpLT(x, zero), finite(x), finite(y), z3.Not(integral))
        c_ovf = z3.And(z3.Not(c_zdiv), z3.Not(c_cplx), UF_POW_OVF(x, y))
        c_ok = z3.And(z3.Not(c_zdiv), z3.Not(c_cplx), z3.Not(UF_POW_OVF(x, y)))
        eng.use("A-libm(pow): pow(0,neg)=inf; pow(neg, non-integral)=NaN; CPython raises OverflowError exactly when libm pow overflows to inf")
        p = UF_POW(x, y)
        for cond, mk, fact in (
            (c_zdiv, lambda: exc("ZeroDivisionError", "0.0 cannot be raised to a negative power", origin), z3.fpIsInf(p)),
            (c_cplx, lambda: VComplex(), z3.fpIsNaN(p)),
            (c_ovf, lambda: exc("OverflowError", "(34, 'Numerical result out of range')", origin), z3.fpIsInf(p)),
            (c_ok, lambda: VFloat(p), z3.BoolVal(True)),
        ):
            s2 = eng.branch(st, cond)
            if s2 is not None:
                s2.assume(fact)
                outs.append((s2, mk()))
        return outs
    raise Unsupported(f"float binop {op}")


def _pow2_exp(n):
    return n.bit_length() - 1 if n > 0 and n & (n - 1) == 0 else None


def _int_bitop(eng, st, op, a, b, origin):
    """Bit operators on mathematical (unbounded) ints where one operand is concrete: exact arithmetic
    characterisations (Python ints are two's complement of unbounded width; z3 div/mod by a positive
    constant are floor division / non-negative remainder)."""
    ca = a.py if isinstance(a, VC) and isinstance(a.py, int) else None
    cb = b.py if isinstance(b, VC) and isinstance(b.py, int) else None
    if op in ("<<", ">>") and cb is not None:
        if cb < 0:
            return [(st, exc("ValueError", "negative shift count", origin))]
        x = to_int_term(a)
        if op == "<<":
            r = VInt(x * (2**cb))
            r_low = cb
            v = VInt(x * (2**cb))
            _LOWZEROS[v.t.get_id()] = (v.t, cb)
            return [(st, v)]
        return [(st, VInt(x / (2**cb)))]
    if op == "^" and (ca is not None or cb is not None):
        c, x = (ca, to_int_term(b)) if ca is not None else (cb, to_int_term(a))
        k = _pow2_exp(c)
        if k is not None:
            bit = (x / (2**k)) % 2
            return [(st, VInt(z3.If(bit == 0, x + 2**k, x - 2**k)))]
    if op == "&" and (ca is not None or cb is not None):
        c, x = (ca, to_int_term(b)) if ca is not None else (cb, to_int_term(a))
        k = _pow2_exp(c + 1) if c >= 0 else None
        if k is not None:  # mask of k low bits
            return [(st, VInt(x % (2**k)))]
    if op == "|":
        # (x << k) | y  with 0 <= y < 2**k  ==  (x << k) + y   (no overlapping bits)
        for p, q in ((a, b), (b, a)):
            if isinstance(p, VInt) and p.t is not None and p.t.get_id() in _LOWZEROS:
                k = _LOWZEROS[p.t.get_id()][1]
                y = to_int_term(q)
                if eng.branch(st, z3.Not(z3.And(y >= 0, y < 2**k))) is None:
                    return [(st, VInt(p.t + y))]
                # the low bits may overlap: not characterised
                raise Unsupported(f"| of a shifted value with an operand not provably below 2**{k} at {origin}")
    raise Unsupported(f"bit operator {op} on unbounded ints {a!r} {b!r}")


_LOWZEROS = {}  # id of a term produced by `x << k` -> (term, k)


def _bitop(eng, st, op, a, b, origin):
    x, y = to_bv(a), to_bv(b)
    if (isinstance(a, VInt) and a.bv is None) or (isinstance(b, VInt) and b.bv is None) or isinstance(a, VBool) and False:
        return _int_bitop(eng, st, op, a, b, origin)
    if x is None or y is None:
        raise Unsupported(f"bit operator {op} on unbounded ints {a!r} {b!r}")
    if op == "&":
        return [(st, VInt(bv=x & y))]
    if op == "|":
        return [(st, VInt(bv=x | y))]
    if op == "^":
        return [(st, VInt(bv=x ^ y))]
    outs = []
    neg = y < 0
    s0 = eng.branch(st, neg)
    if s0 is not None:
        outs.append((s0, exc("ValueError", "negative shift count", origin)))
    s1 = eng.branch(st, z3.Not(neg))
    if s1 is not None:
        if op == ">>":
            outs.append((s1, VInt(bv=x >> y)))  # arithmetic shift; count >= 64 saturates like Python
        else:
            r = x << y
            # Python ints are unbounded: the 64-bit result is only the Python result if nothing is shifted out
            s1.obligations.append(("domain:lshift_fits_64bit@" + origin, z3.And(z3.ULT(y, 64), (r >> y) == x)))
            outs.append((s1, VInt(bv=r)))
    return outs


def unop(eng, st, op, a, origin=""):
    if isinstance(a, VC):
        try:
            r = {"-": lambda v: -v, "+": lambda v: +v, "~": lambda v: ~v, "not": lambda v: not v}[op](a.py)
            return [(st, lift(r))]
        except Exception as e:
            return [(st, exc(type(e).__name__, str(e), origin))]
    if op == "not":
        t = truth(st, a)
        return [(st, vbool(z3.Not(t) if not isinstance(t, bool) else (not t)))]
    if isinstance(a, VFloat):
        if op == "-":
            return [(st, VFloat(z3.fpNeg(a.t)))]
        if op == "+":
            return [(st, a)]
        if op == "~":
            return [(st, exc("TypeError", "bad operand type for unary ~: 'float'", origin))]
    if isinstance(a, (VInt, VBool)):
        if op == "~":
            bv = to_bv(a)
            if bv is not None:
                return [(st, VInt(bv=~bv))]
            return [(st, VInt(-to_int_term(a) - 1))]
        if op == "-":
            if isinstance(a, VInt) and a.bv is not None:
                st.obligations.append(("domain:neg_fits_64bit@" + origin, a.bv != z3.BitVecVal(-(2**63), 64)))
                return [(st, VInt(bv=-a.bv))]
            return [(st, VInt(-to_int_term(a)))]
        if op == "+":
            return [(st, VInt(to_int_term(a)))]
    if isinstance(a, VComplex):
        return [(st, VComplex())]
    if is_strlike(a):
        return [(st, exc("TypeError", f"bad operand type for unary {op}: 'str'", origin))]
    raise Unsupported(f"unop {op} on {a!r}")


# ---- comparisons -------------------------------------------------------------------
def same_obj(a, b):
    return isinstance(a, VRefBase) and isinstance(b, VRefBase) and a.oid == b.oid


def eq(eng, st, a, b):
    """Python == as python bool or z3 Bool (no raising)."""
    if isinstance(a, VC) and isinstance(b, VC):
        return a.py == b.py
    from . import astr

    if isinstance(a, (astr.VAStr, astr.VChr)) or isinstance(b, (astr.VAStr, astr.VChr)):
        r = astr.eq_values(eng, st, a, b)
        if r is not None:
            return r
    if is_num(a) and is_num(b):
        if is_floatlike(a) or is_floatlike(b):
            return z3.fpEQ(to_fp(a), to_fp(b))
        xb, yb = (a.bv if isinstance(a, VInt) else None), (b.bv if isinstance(b, VInt) else None)
        if xb is not None or yb is not None:
            x2, y2 = to_bv(a), to_bv(b)
            if x2 is not None and y2 is not None:
                return x2 == y2
        return to_int_term(a) == to_int_term(b)
    if is_strlike(a) and is_strlike(b):
        return to_str_term(a) == to_str_term(b)
    if isinstance(a, VBytes) and isinstance(b, VBytes):
        return a.t == b.t
    if isinstance(a, VTuple) and isinstance(b, VTuple):
        if len(a.items) != len(b.items):
            return False
        parts = [eq(eng, st, x, y) for x, y in zip(a.items, b.items)]
        if any(p is False for p in parts):
            return False
        parts = [p for p in parts if p is not True]
        return z3.And(*parts) if parts else True
    if isinstance(a, VOpq) and isinstance(b, VOpq) and a.tag == b.tag:
        return a.t == b.t
    if (isinstance(a, VOpq) and a.tag.startswith("opt:")) or (isinstance(b, VOpq) and b.tag.startswith("opt:")):
        # an arbitrary value compared with anything: the outcome is unknown (a fresh Boolean)
        return fresh("any_eq", z3.BoolSort())
    if isinstance(a, VDict) and isinstance(b, VDict) and a.oid != b.oid:
        da, db = st.store[a.oid], st.store[b.oid]
        if "__sym__" in da or "__sym__" in db:
            raise Unsupported("== between symbolic dicts")
        if set(da) != set(db):
            return False
        parts = [eq(eng, st, da[k], db[k]) for k in da]
        if any(p is False for p in parts):
            return False
        parts = [p for p in parts if p is not True]
        return z3.And(*parts) if parts else True
    if isinstance(a, VRefBase) and isinstance(b, VRefBase):
        if a.oid == b.oid:
            return True
        if isinstance(a, VList) and isinstance(b, VList):
            la, lb = st.store[a.oid], st.store[b.oid]
            return eq(eng, st, VTuple(la), VTuple(lb))
        if isinstance(a, VObj) and isinstance(b, VObj):
            return False  # identity equality unless dataclass eq -- conservative: unsupported
    # values of different kinds are never equal (None vs number, str vs number, ...)
    kinds = lambda v: ("num" if is_num(v) else "str" if is_strlike(v) else "none" if (isinstance(v, VC) and v.py is None) else type(v).__name__)
    ka, kb = kinds(a), kinds(b)
    simple = {"num", "str", "none", "VTuple", "VList", "VDict", "VSet", "VBytes", "VComplex"}
    if ka != kb and ka in simple and kb in simple and "VComplex" not in (ka, kb):
        return False
    if isinstance(a, VC) and a.py is None and isinstance(b, (VObj, VOpq, VFun)) or isinstance(b, VC) and b.py is None and isinstance(a, (VObj, VFun)):
        return False
    if (isinstance(a, VOpq) and isinstance(b, (VC, VStr, VInt, VFloat, VBool))) or (isinstance(b, VOpq) and isinstance(a, (VC, VStr, VInt, VFloat, VBool))):
        return False  # an opaque object (a register, an enum member, ...) is not equal to a str / number / None
    raise Unsupported(f"== between {a!r} and {b!r}")


def compare(eng, st, op, a, b, origin=""):
    """-> [(st, value|Raise)] for one comparison operator."""
    if op in ("==", "!="):
        r = eq(eng, st, a, b)
        if op == "!=":
            r = (not r) if isinstance(r, bool) else z3.Not(r)
        return [(st, vbool(r))]
    if op in ("is", "is not"):
        r = is_same(eng, st, a, b)
        if op == "is not":
            r = (not r) if isinstance(r, bool) else z3.Not(r)
        return [(st, vbool(r))]
    if op in ("in", "not in"):
        outs = []
        for s2, r in eng.contains(st, b, a, origin):
            if isinstance(r, Raise):
                outs.append((s2, r))
                continue
            if op == "not in":
                r = (not r) if isinstance(r, bool) else z3.Not(r)
            outs.append((s2, vbool(r)))
        return outs
    if isinstance(a, VC) and isinstance(b, VC):
        try:
            import operator as o

            return [(st, VC({"<": o.lt, "<=": o.le, ">": o.gt, ">=": o.ge}[op](a.py, b.py)))]
        except Exception as e:
            return [(st, exc(type(e).__name__, str(e), origin))]
    if is_num(a) and is_num(b):
        if is_floatlike(a) or is_floatlike(b):
            x, y = to_fp(a), to_fp(b)
            f = {"<": z3.fpLT, "<=": z3.fpLEQ, ">": z3.fpGT, ">=": z3.fpGEQ}[op]
            return [(st, vbool(f(x, y)))]
        xb, yb = to_bv(a) if (isinstance(a, VInt) and a.bv is not None) else None, to_bv(b) if (isinstance(b, VInt) and b.bv is not None) else None
        if xb is not None or yb is not None:
            x2, y2 = to_bv(a), to_bv(b)
            if x2 is not None and y2 is not None:
                f = {"<": lambda p, q: p < q, "<=": lambda p, q: p <= q, ">": lambda p, q: p > q, ">=": lambda p, q: p >= q}[op]
                return [(st, vbool(f(x2, y2)))]
        x, y = to_int_term(a), to_int_term(b)
        f = {"<": lambda p, q: p < q, "<=": lambda p, q: p <= q, ">": lambda p, q: p > q, ">=": lambda p, q: p >= q}[op]
        return [(st, vbool(f(x, y)))]
    if is_strlike(a) and is_strlike(b):
        raise Unsupported("string ordering")
    if (is_strlike(a) and is_num(b)) or (is_num(a) and is_strlike(b)) or (isinstance(a, VC) and a.py is None) or (isinstance(b, VC) and b.py is None):
        return [(st, exc("TypeError", f"'{op}' not supported between instances of '{type_name(a)}' and '{type_name(b)}'", origin))]
    raise Unsupported(f"compare {op} on {a!r} {b!r}")


def is_same(eng, st, a, b):
    if isinstance(a, VC) and isinstance(b, VC):
        if a.py is None or b.py is None or isinstance(a.py, bool) or isinstance(b.py, bool):
            return a.py is b.py
        return a.py == b.py and type(a.py) is type(b.py)
    none_a = isinstance(a, VC) and a.py is None
    none_b = isinstance(b, VC) and b.py is None
    if none_a or none_b:
        other = b if none_a else a
        if isinstance(other, VOpq) and other.tag.startswith("opt:"):
            f = z3.Function("is_none_" + other.tag, other.t.sort(), z3.BoolSort())
            return f(other.t)
        return False
    if isinstance(a, VRefBase) and isinstance(b, VRefBase):
        return a.oid == b.oid
    if isinstance(a, VOpq) and isinstance(b, VOpq) and a.tag == b.tag:
        return a.t == b.t
    if isinstance(a, VInt) or isinstance(b, VInt) or isinstance(a, VBool) or isinstance(b, VBool):
        r = eq(eng, st, a, b)
        return r
    raise Unsupported(f"is between {a!r} {b!r}")


# ---- int()/float()/str()/bool() ----------------------------------------------------
def py_int(eng, st, a, origin=""):
    if isinstance(a, VC):
        try:
            return [(st, VC(int(a.py)))]
        except Exception as e:
            return [(st, exc(type(e).__name__, str(e), origin))]
    if isinstance(a, (VInt,)):
        return [(st, a)]
    if isinstance(a, VBool):
        return [(st, VInt(to_int_term(a)))]
    if isinstance(a, VFloat):
        outs = []
        nan, inf = z3.fpIsNaN(a.t), z3.fpIsInf(a.t)
        s0 = eng.branch(st, nan)
        if s0 is not None:
            outs.append((s0, exc("ValueError", "cannot convert float NaN to integer", origin)))
        s1 = eng.branch(st, inf)
        if s1 is not None:
            outs.append((s1, exc("OverflowError", "cannot convert float infinity to integer", origin)))
        s2 = eng.branch(st, z3.Not(z3.Or(nan, inf)))
        if s2 is not None:
            lim = fpv(2.0**63)
            s2.obligations.append(("domain:int_of_float_fits_64bit@" + origin, z3.And(z3.fpLT(a.t, lim), z3.fpGT(a.t, z3.fpNeg(lim)))))
            outs.append((s2, VInt(bv=z3.fpToSBV(RTZ, a.t, BV64))))
        return outs
    if isinstance(a, VStr):
        raise Unsupported("int(symbolic str)")
    if isinstance(a, VComplex):
        return [(st, exc("TypeError", "int() argument must be a string, a bytes-like object or a real number, not 'complex'", origin))]
    raise Unsupported(f"int({a!r})")


def py_float(eng, st, a, origin=""):
    if isinstance(a, VC):
        try:
            return [(st, VC(float(a.py)))]
        except Exception as e:
            return [(st, exc(type(e).__name__, str(e), origin))]
    if is_num(a):
        return [(st, VFloat(to_fp(a)))]
    if isinstance(a, VComplex):
        return [(st, exc("TypeError", "float() argument must be a string or a real number, not 'complex'", origin))]
    if isinstance(a, VStr):
        # float(str): may raise ValueError; value is an uninterpreted function of the text
        f = z3.Function("py_float_of_str", z3.StringSort(), F64)
        ok = z3.Function("py_float_parses", z3.StringSort(), z3.BoolSort())
        outs = []
        s0 = eng.branch(st, z3.Not(ok(a.t)))
        if s0 is not None:
            outs.append((s0, exc("ValueError", "could not convert string to float", origin)))
        s1 = eng.branch(st, ok(a.t))
        if s1 is not None:
            outs.append((s1, VFloat(f(a.t))))
        return outs
    raise Unsupported(f"float({a!r})")


def int_to_str_term(t):
    """str(int) as a z3 String term (z3's int.to.str only covers naturals)."""
    return z3.If(t >= 0, z3.IntToStr(t), z3.Concat(z3.StringVal("-"), z3.IntToStr(-t)))


def py_str(eng, st, a, origin=""):
    if isinstance(a, VC):
        return [(st, VC(str(a.py)))]
    if isinstance(a, VStr) or type(a).__name__ in ("VAStr", "VChr"):
        return [(st, a)]
    if isinstance(a, VInt):
        return [(st, VStr(int_to_str_term(to_int_term(a))))]
    if isinstance(a, VBool):
        return [(st, VStr(z3.If(a.t, z3.StringVal("True"), z3.StringVal("False"))))]
    if isinstance(a, VFloat):
        f = z3.Function("py_repr_float", F64, z3.StringSort())
        return [(st, VStr(f(a.t)))]
    if isinstance(a, VOpq):
        f = z3.Function("py_str_" + a.tag, a.t.sort(), z3.StringSort())
        return [(st, VStr(f(a.t)))]
    if isinstance(a, (VExc, VType, VDict, VList, VTuple, VSet, VFun, VMod)):
        # the text is not characterised; formatting these values does not raise
        f = fresh("reprstr", z3.StringSort())
        return [(st, VStr(f))]
    raise Unsupported(f"str({a!r})")
