"""Extraction of the code under contract from the working tree (re-read on every run)."""
from __future__ import annotations

import ast
import hashlib
from functools import lru_cache
from pathlib import Path

from .report import SRC
from .values import Unsupported, VFun


@lru_cache(maxsize=None)
def module_ast(relname: str) -> ast.Module:
    """relname: file name inside src/stationeers_pytrapic, e.g. 'utils.py'"""
    return ast.parse((SRC / relname).read_text())


def module_source(relname: str) -> str:
    return (SRC / relname).read_text()


def find_function(tree: ast.Module, qualname: str) -> ast.FunctionDef:
    parts = qualname.split(".")
    body = tree.body
    node = None
    for i, p in enumerate(parts):
        found = None
        for item in body:
            if isinstance(item, (ast.FunctionDef, ast.ClassDef, ast.AsyncFunctionDef)) and item.name == p:
                found = item
                break
        if found is None:
            raise Unsupported(f"sidecar out of date: {qualname} not found in source")
        node = found
        body = found.body
    return node


def returned_dict(fdef: ast.FunctionDef) -> ast.Dict:
    """The dict literal a table function returns: `return {...}[k]` or `return {...}.get(k, d)`."""
    for stmt in fdef.body:
        if isinstance(stmt, ast.Return):
            v = stmt.value
            if isinstance(v, ast.Subscript) and isinstance(v.value, ast.Dict):
                return v.value
            if isinstance(v, ast.Call) and isinstance(v.func, ast.Attribute) and isinstance(v.func.value, ast.Dict):
                return v.func.value
    raise Unsupported(f"sidecar out of date: {fdef.name} no longer returns a dict literal lookup")


def dict_rows(d: ast.Dict):
    """-> {constant key: value node}; duplicate keys are an error (later wins silently in Python)."""
    rows = {}
    for k, v in zip(d.keys, d.values):
        if not isinstance(k, ast.Constant):
            raise Unsupported("table with non-constant key")
        if k.value in rows:
            raise Unsupported(f"duplicate table key {k.value!r}")
        rows[k.value] = v
    return rows


def statements_before(fdef, pred):
    """Statements of the function body before the first statement satisfying pred (the table's prologue)."""
    out = []
    for s in fdef.body:
        if pred(s):
            break
        out.append(s)
    return out


def find_stmt(fdef, prefix: str, nth=0):
    """First (nth) statement anywhere in fdef whose unparsed source starts with `prefix`."""
    n = 0
    for node in ast.walk(fdef):
        if isinstance(node, ast.stmt):
            try:
                src = ast.unparse(node)
            except Exception:
                continue
            if src.startswith(prefix):
                if n == nth:
                    return node
                n += 1
    raise Unsupported(f"sidecar out of date: no statement starting with {prefix!r} in {fdef.name}")


def block_from(fdef, prefix: str, until: str | None = None):
    """Top-level statements of fdef from the first one starting with `prefix` (to the one starting with `until`, exclusive)."""
    out, on = [], False
    for s in fdef.body:
        src = ast.unparse(s)
        if not on and src.startswith(prefix):
            on = True
        elif on and until is not None and src.startswith(until):
            break
        if on:
            out.append(s)
    if not out:
        raise Unsupported(f"sidecar out of date: no top-level statement starting with {prefix!r} in {fdef.name}")
    return out


def as_function(name, params, stmts, returns=None):
    """Wrap a statement block as a function of its live-in names; it returns the tuple of `returns` names."""
    body = list(stmts)
    if returns is not None:
        body = body + [ast.Return(value=ast.Tuple(elts=[ast.Name(id=r, ctx=ast.Load()) for r in returns], ctx=ast.Load()))]
    f = ast.FunctionDef(
        name=name,
        args=ast.arguments(posonlyargs=[], args=[ast.arg(arg=p) for p in params], kwonlyargs=[], kw_defaults=[], defaults=[]),
        body=body, decorator_list=[], type_params=[],
    )
    ast.fix_missing_locations(f)
    # keep original line numbers of the statements (fix_missing_locations only fills gaps)
    return f


def sha(node) -> str:
    return hashlib.sha256(ast.unparse(node).encode()).hexdigest()[:16]


def describe(node, relname):
    return {
        "file": f"src/stationeers_pytrapic/{relname}",
        "lines": [getattr(node, "lineno", None), getattr(node, "end_lineno", None)],
        "sha256_of_extracted_source": sha(node),
    }


def vfun(node, name, closure=None):
    kind = "lambda" if isinstance(node, ast.Lambda) else "def"
    return VFun(kind, node=node, closure=closure or {}, name=name)
