"""Runs a list of contracts in a process pool, replays counterexamples on the real code."""
from __future__ import annotations

import math
import multiprocessing as mp
import os
import random
import time
import traceback

from .contract import Contract, prove_contract
from .report import DISCHARGED, UNDECIDED, VIOLATED, Ob, Report

_CONTRACTS = []


def _work(i):
    c = _CONTRACTS[i]
    t0 = time.time()
    try:
        obs, info = prove_contract(c)
        return i, [o.__dict__ for o in obs], info, time.time() - t0, None
    except BaseException:
        return i, [], {}, time.time() - t0, traceback.format_exc()


def run_contracts(report: Report, contracts: list[Contract], jobs=None, prop_filter=None):
    """Prove all contracts; append obligations to the report; replay violations natively."""
    global _CONTRACTS
    _CONTRACTS = contracts
    jobs = jobs or min(16, os.cpu_count() or 4, max(1, len(contracts)))
    ctx = mp.get_context("fork")
    results = []
    if jobs == 1 or len(contracts) == 1:
        results = [_work(i) for i in range(len(contracts))]
    else:
        with ctx.Pool(jobs) as pool:
            results = pool.map(_work, range(len(contracts)), chunksize=1)
    for i, obs, info, dt, err in results:
        c = contracts[i]
        if err:
            report.crash(f"contract {c.name}: {err}")
            continue
        for a in info.get("assumptions", []):
            report.assume(a)
        for d in obs:
            ob = Ob(**d)
            if prop_filter and not prop_filter(ob):
                continue
            if ob.verdict == VIOLATED:
                replay(c, ob)
            elif ob.verdict == UNDECIDED and c.search is not None and "#subset[" in ob.id:
                # the code left the verified subset: the prover is silent, but a natively replayed counterexample
                # of a postcondition is still a counterexample
                for clause in c.post:
                    extra = Ob(ob.id.replace("#subset[", f"#{clause}["), UNDECIDED, detail=dict(ob.detail), target=ob.target)
                    native_search(c, extra)
                    if extra.verdict == VIOLATED:
                        report.add(extra)
            elif ob.verdict == UNDECIDED and c.search is not None:
                native_search(c, ob)
            report.add(ob)
        report.function(target=c.name, paths=info.get("paths"), kind_combinations=info.get("combos"), wall_s=round(dt, 2),
                        **(getattr(c, "describe", None) or {}))
    return results


def _native_clause(c: Contract, ob: Ob):
    clause = ob.id.split("#", 1)[1].split("[")[0]
    return clause, c.post.get(clause)


def evaluate_native(c: Contract, clause_fn, args):
    """-> (pre_holds, outcome_text, post_holds | None)"""
    try:
        if c.pre is not None and not c.pre(*args):
            return False, "precondition false", None
    except Exception as e:
        return False, f"precondition raised {type(e).__name__}: {e}", None
    try:
        names = [p for p, _ in c.params]
        import inspect

        try:
            arity = len(inspect.signature(c.native).parameters)
        except (TypeError, ValueError):
            arity = None
        # ghost parameters that stand for global state are passed to natives that take them
        res = c.native(*args) if arity == len(args) else c.native(*[a for n, a in zip(names, args) if n not in c.ghost])
    except Exception as e:
        allowed = None
        for name, cond in c.raises.items():
            if type(e).__name__ == name.split(".")[-1]:
                allowed = cond
        if allowed is True or (allowed is not None and allowed(*args)):
            return True, f"raised {type(e).__name__} (allowed)", True
        return True, f"raised {type(e).__name__}: {e}", False
    if clause_fn is None:
        return True, repr(res), None
    try:
        ok = bool(clause_fn(*args, res))
    except Exception as e:
        return True, f"{res!r}; postcondition raised {type(e).__name__}: {e}", False
    return True, repr(res), ok


BOUNDARY_FLOATS = [0.0, -0.0, 1.0, -1.0, 2.0, 0.5, -0.5, 3.0, 7.0, -7.0, 1e-7, 255.0, 65536.0, 2.0**31, -(2.0**31), 2.0**52, 1e15, 1e300, -1e300, 1.5, 2.5, -2.5, 0.1, 100.0, 5.0, 8.0, 63.0, 10000.0, 10001.0]
BOUNDARY_INTS = [0, 1, -1, 2, 3, 5, 7, -7, 8, 10, 63, 64, 255, 256, 10000, 10001, 65535, 2**31, -(2**31), 2**32, 2**53, -(2**53), 123456789012]


def replay(c: Contract, ob: Ob, tries=400):
    """Replay the solver's counterexample on the real function; if the model does not reproduce
    (uninterpreted functions chosen adversarially), search the contract natively for a failing input."""
    if c.native is None:
        if c.search is not None:
            native_search(c, ob)
        return
    clause, fn = _native_clause(c, ob)
    names = [p for p, _ in c.params]
    if clause.startswith("exc."):
        fn = None
    w = ob.witness or {}
    try:
        args = [w[n] for n in names]
        pre_ok, out, post_ok = evaluate_native(c, fn, args)
        ob.detail["replay_of_model"] = {"inputs": w, "observed": out, "pre_holds": pre_ok, "post_holds": post_ok}
        if pre_ok and post_ok is False:
            ob.replayed = True
            ob.detail["observed"] = out
            return
    except Exception as e:  # model value not usable natively
        ob.detail["replay_of_model"] = {"error": f"{type(e).__name__}: {e}"}
    if c.search is not None:
        native_search(c, ob)
        if ob.replayed:
            return
    # native search over boundary + random inputs of the same kinds
    rnd = random.Random(int(os.environ.get("VERIF_SEED", "0")) + 7)
    kinds = (ob.detail.get("kinds") or "").split(",")

    def draw(kind, i):
        if kind.startswith("int"):
            return rnd.choice(BOUNDARY_INTS) if i % 2 == 0 else rnd.randint(-(2**20), 2**20)
        if kind.startswith("float"):
            return rnd.choice(BOUNDARY_FLOATS) if i % 2 == 0 else rnd.uniform(-1000, 1000)
        return None

    if all(k.startswith(("int", "float")) for k in kinds) and len(kinds) == len(names):
        for i in range(tries):
            args = [draw(k, i + j) for j, k in enumerate(kinds)]
            pre_ok, out, post_ok = evaluate_native(c, fn, args)
            if pre_ok and post_ok is False:
                ob.replayed = True
                ob.witness = dict(zip(names, args))
                ob.detail["observed"] = out
                ob.detail["witness_source"] = "native search after the solver model did not reproduce"
                return


def native_search(c: Contract, ob: Ob):
    """The solver could not prove the obligation and gave no model (quantified VC under e-matching):
    search the real function natively for an input that violates the clause."""
    clause = ob.id.split("#", 1)[1].split("[")[0]
    try:
        found = c.search(clause)
    except Exception as e:  # a crashing search never produces a verdict
        ob.detail["native_search_error"] = f"{type(e).__name__}: {e}"
        return
    if found:
        witness, observed = found
        ob.verdict = VIOLATED
        ob.replayed = True
        ob.witness = witness
        ob.detail["observed"] = observed
        ob.detail["witness_source"] = "native search of the contract on the real function (solver returned no model)"
