"""Obligation bookkeeping, verdicts, known findings, evidence files, exit codes.

Exit codes (DESIGN section 0):
  0  every obligation discharged / every bounded case held (known findings printed)
  1  at least one VIOLATION line
  2  undecided (solver unknown / construct outside subset / sidecar out of date)
  3  checker crash or vacuity guard (too few obligations)
"""
from __future__ import annotations

import json
import os
import sys
import time
import traceback
from dataclasses import dataclass, field, asdict
from pathlib import Path

VERIF = Path(__file__).resolve().parent.parent
OUT = Path(os.environ.get("VERIF_OUT") or VERIF)
REPO = Path(os.environ.get("PYTRAPIC_REPO", "/repo"))
# evidence/ and replay/ live in /verif; runs against another checkout (seeded changes on scratch copies, snapshots) may send
# them elsewhere with VERIF_OUT so that the committed evidence always comes from /repo itself
SRC = REPO / "src" / "stationeers_pytrapic"

DISCHARGED = "discharged"
VIOLATED = "violated"
UNDECIDED = "undecided"
KNOWN = "known-finding"
HELD = "bounded-held"


@dataclass
class Ob:
    """One obligation and its verdict."""

    id: str
    verdict: str
    kind: str = "proof"  # proof | exhaustive | scan | bounded
    backend: str = "z3"  # z3 | cvc5 | eval | native | scan
    time_s: float = 0.0
    detail: dict = field(default_factory=dict)
    # for violated obligations
    witness: dict | None = None  # concrete failing input (replayed natively) or None
    replayed: bool = False  # witness reproduces on the real code
    bound: str | None = None
    target: str | None = None

    def to_json(self):
        d = asdict(self)
        return {k: v for k, v in d.items() if v not in (None, {}, "")}


def load_baseline(prop):
    p = VERIF / "baseline_obligations.json"
    if not p.exists():
        return set()
    return set(json.loads(p.read_text()).get(prop, []))


def load_known_findings():
    p = VERIF / "known_findings.json"
    if not p.exists():
        return []
    return json.loads(p.read_text())["findings"]


def _jsonable(x):
    try:
        json.dumps(x)
        return x
    except Exception:
        if isinstance(x, dict):
            return {str(k): _jsonable(v) for k, v in x.items()}
        if isinstance(x, (list, tuple, set, frozenset)):
            return [_jsonable(v) for v in x]
        return repr(x)


class Report:
    def __init__(self, prop: str, tier: str, seed: int, level: str):
        self.prop = prop
        self.tier = tier
        self.seed = seed
        self.level = level
        self.obs: list[Ob] = []
        self.functions: list[dict] = []
        self.assumptions: list[str] = []
        self.trusted: list[str] = []
        self.extra: dict = {}
        self.samples: list = []
        self.bounded = {"evaluations": 0, "distinct_nontrivial": 0, "rule": "", "contract_evaluations": {}}
        self.t0 = time.time()
        self.crashed: list[str] = []
        self.notes: list[str] = []

    # -- collection -----------------------------------------------------
    def add(self, ob: Ob):
        self.obs.append(ob)

    def extend(self, obs):
        for o in obs:
            self.add(o if isinstance(o, Ob) else Ob(**o))

    def assume(self, *texts):
        for t in texts:
            if t not in self.assumptions:
                self.assumptions.append(t)

    def trust(self, *texts):
        for t in texts:
            if t not in self.trusted:
                self.trusted.append(t)

    def function(self, **kw):
        self.functions.append(kw)

    def crash(self, what: str):
        self.crashed.append(what)

    # -- verdict ----------------------------------------------------------
    def finish(self, min_obligations: int = 1, checker_cmd: str | None = None) -> int:
        known = [k for k in load_known_findings() if k.get("property") == self.prop and "fixed" not in k]
        lines = []
        n_viol = 0
        known_hit = []
        replay_dir = OUT / "replay"
        baseline = load_baseline(self.prop)
        for ob in self.obs:
            # rule (b) of DESIGN section 0: an obligation that is discharged on the unchanged tree and for which
            # the solver now terminates without a proof (not a resource limit) is reported, without a failing input
            if ob.verdict == UNDECIDED and ob.id in baseline and str(ob.detail.get("reason", "")).startswith("solver: NOPROOF"):
                ob.verdict = VIOLATED
                ob.replayed = False
                ob.detail["rule"] = "obligation discharged on the unchanged tree (baseline_obligations.json) is no longer provable; solver output attached"
        for ob in self.obs:
            if ob.verdict != VIOLATED:
                continue
            kf = self._match_known(ob, known)
            if kf is not None:
                ob.verdict = KNOWN
                known_hit.append((kf, ob))
                continue
            n_viol += 1
            replay_dir.mkdir(parents=True, exist_ok=True)
            fn = replay_dir / (self.prop + "-" + _safe(ob.id) + ".json")
            fn.write_text(json.dumps(_jsonable({
                "property": self.prop,
                "obligation": ob.id,
                "target": ob.target,
                "witness": ob.witness,
                "replayed_on_real_code": ob.replayed,
                "detail": ob.detail,
                "rerun": f"./check {self.prop} --replay {(fn.relative_to(VERIF) if OUT == VERIF else fn)}",
            }), indent=1))
            tail = "" if ob.replayed else " no-failing-input-found"
            lines.append((f"VIOLATION property={self.prop} replay={(fn.relative_to(VERIF) if OUT == VERIF else fn)}{tail}", ob.id))
        printed = set()
        for kf, ob in known_hit:
            key = kf["id"]
            if key in printed:
                continue
            printed.add(key)
            _out(f"KNOWN-FINDING: property={self.prop} {kf['what']} [obligation {ob.id}]")
        for l, oid in lines:
            _out(l)
            _out(f"  failed obligation={oid}")
        undecided = [o for o in self.obs if o.verdict == UNDECIDED]
        n_total = len(self.obs)
        n_ok = sum(1 for o in self.obs if o.verdict in (DISCHARGED, HELD))
        code = 0
        if n_viol:
            code = 1
        elif self.crashed:
            code = 3
        elif n_total < min_obligations:
            _out(f"CHECKER-ERROR: only {n_total} obligations generated, expected >= {min_obligations} (vacuity guard)")
            code = 3
        elif undecided:
            code = 2
        for u in undecided[:20]:
            _out(f"UNDECIDED: {u.id}: {u.detail.get('reason', '')}"[:400])
        for c in self.crashed:
            _out("CHECKER-ERROR:", c[:2000])
        self._write_evidence(n_viol, checker_cmd, known_hit)
        n_proved = sum(1 for o in self.obs if o.verdict == DISCHARGED)
        n_held = sum(1 for o in self.obs if o.verdict == HELD)
        _out(f"{self.prop} [{self.tier}] obligations={n_total} discharged={n_proved} bounded-held={n_held} "
              f"known-findings={len(known_hit)} violated={n_viol} undecided={len(undecided)} "
              f"wall={time.time() - self.t0:.1f}s exit={code}")
        return code

    def _match_known(self, ob: Ob, known):
        for kf in known:
            if kf.get("obligation") != ob.id:
                continue
            sig = kf.get("signature")
            if sig is not None and ob.detail.get("signature") != sig:
                continue
            return kf
        return None

    def _write_evidence(self, n_viol, checker_cmd, known_hit):
        # obligations recorded as known findings are reported separately (KNOWN-FINDING lines, known_findings key):
        # they are neither discharged nor counted among the obligations this run claims
        proofish = [o for o in self.obs if o.kind in ("proof", "exhaustive", "scan") and o.verdict != KNOWN]
        n_ob = len(proofish)
        n_dis = sum(1 for o in proofish if o.verdict == DISCHARGED)
        backends = {}
        for o in self.obs:
            backends[o.backend] = backends.get(o.backend, 0) + 1
        solver_time = sum(o.time_s for o in self.obs)
        cov = {
            "obligations": n_ob,
            "discharged": n_dis,
            "checker_cmd": checker_cmd or f"./check {self.prop} --tier {self.tier}",
            "trusted_base": self.trusted,
            "evaluations": max(self.bounded["evaluations"], len(self.obs)),
            "distinct_nontrivial": max(self.bounded["distinct_nontrivial"], len({o.id for o in self.obs})),
            "rule": self.bounded["rule"] or "one case per generated obligation; distinct = distinct obligation ids",
            "samples": (self.samples or [o.to_json() for o in self.obs[:3]])[:12],
            "functions_under_contract": self.functions,
            "obligations_by_backend": backends,
            "solver_time_s": round(solver_time, 3),
            "obligations_detail": [o.to_json() for o in self.obs][:4000],
            "known_findings_reproduced": [kf["id"] for kf, _ in known_hit],
            "known_finding_obligations": sum(1 for o in self.obs if o.verdict == KNOWN),
            "bounded": self.bounded,
        }
        cov.update(self.extra)
        if self.level == "other":
            cov.setdefault("explanation", "see rule")
        ev = {
            "property_id": self.prop,
            "tier": self.tier,
            "seed": self.seed,
            "level": self.level,
            "coverage": _jsonable(cov),
            "assumptions": self.assumptions,
            "wall_s": round(time.time() - self.t0, 2),
            "violations": n_viol,
        }
        out = OUT / "evidence"
        out.mkdir(parents=True, exist_ok=True)
        (out / f"{self.prop}.json").write_text(json.dumps(ev, indent=1))


def _safe(s: str) -> str:
    return "".join(c if c.isalnum() or c in "._-" else "_" for c in s)[:120]


def _out(*a):
    """the interface lines go to the process's real stdout: code under check may rebind sys.stdout (mod_daemon does so at import)"""
    import sys

    print(*a, file=sys.__stdout__, flush=True)


def run_check(prop: str, fn, tier: str, seed: int):
    """Wrap a property check so that a crash maps to exit 3, never to a violation."""
    try:
        return fn(tier, seed)
    except SystemExit:
        raise
    except BaseException:
        _out("CHECKER-ERROR: crash in check", prop)
        traceback.print_exc()
        return 3
