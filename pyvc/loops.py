"""Loops.  Concrete-length iterables are unrolled completely (a complete case analysis).
Symbolic iterables need a LoopSpec (inductive invariant) from the sidecar; the three
verification conditions (init / preserved / use-after) are generated here."""
from __future__ import annotations

import ast

import z3

from . import pysem as S
from .pysem import exc, lift, vbool
from .state import Outcome, Raise, fresh
from .values import *

STR = z3.StringSort()
INT = z3.IntSort()


class SymList:
    """List of symbolic length whose elements are given by a z3 function of the index."""

    def __init__(self, n, elem, kind):
        self.n = n  # z3 Int
        self.elem = elem  # python callable: z3 Int -> V
        self.kind = kind

    @staticmethod
    def fresh_str_list(st, prefix, nonempty=False, not_containing=None, n=None, elem=None):
        n = fresh(prefix + "_len", INT) if n is None else n
        f = z3.Function(f"{prefix}_elem!{n}", INT, STR) if elem is None else elem
        st.assume(n >= (1 if nonempty else 0))
        sl = SymList(n, lambda i: VStr(f(i)), "str")
        sl.not_containing = not_containing
        sl.f = f
        v = VList(st.alloc({"__sym__": sl}))
        return v

    def nonempty(self, st):
        return self.n > 0

    def length(self, st):
        return VInt(self.n)

    def get(self, eng, st, idx, origin):
        i = S.to_int_term(idx)
        j = z3.If(i < 0, i + self.n, i)
        ok = z3.And(j >= 0, j < self.n)
        outs = []
        s1 = eng.branch(st, ok)
        if s1 is not None:
            outs.append((s1, self.at(s1, j)))
        s0 = eng.branch(st, z3.Not(ok))
        if s0 is not None:
            outs.append((s0, exc("IndexError", "list index out of range", origin)))
        return outs

    def at(self, st, j):
        v = self.elem(j)
        nc = getattr(self, "not_containing", None)
        if nc is not None and isinstance(v, VStr):
            st.assume(z3.Not(z3.Contains(v.t, nc)))
        return v

    def contains(self, eng, st, item, origin):
        raise Unsupported("membership in symbolic list")

    def method(self, eng, st, recv, name, args, kwargs, origin):
        raise Unsupported(f"method {name} on symbolic list")

    def set(self, eng, st, idx, v, origin):
        raise Unsupported("store into symbolic list")


class SymRange(V):
    @staticmethod
    def make(st, args):
        r = SymRange()
        if len(args) == 1:
            r.lo, r.hi = z3.IntVal(0), S.to_int_term(args[0])
        elif len(args) == 2:
            r.lo, r.hi = S.to_int_term(args[0]), S.to_int_term(args[1])
        else:
            raise Unsupported("symbolic range with step")
        return r


class LoopSpec:
    """Inductive invariant for one loop.
    inv: python def (interpreted symbolically and natively) over (k, <named variables>);
    vars: names of the program variables the invariant reads;
    havoc: optional callable (eng, st) that havocs heap state modified by the body."""

    def __init__(self, inv_fn, vars, havoc=None, name="inv", lists=None, variant=None):
        self.inv_fn = inv_fn
        self.vars = list(vars)
        self.havoc = havoc
        self.name = name
        self.lists = dict(lists or {})  # name -> tuple arity (0 = scalars) of lists that the body mutates
        self.variant = variant  # while loops: python def (k, <vars>) -> int that decreases on every back edge and stays >= 0 (termination)


def assigned_names(stmts):
    names = []
    for node in ast.walk(ast.Module(body=list(stmts), type_ignores=[])):
        if isinstance(node, ast.Name) and isinstance(node.ctx, ast.Store):
            if node.id not in names:
                names.append(node.id)
    return names


def mutated_lists(stmts):
    """names on which the body calls a mutating list method"""
    names = []
    for node in ast.walk(ast.Module(body=list(stmts), type_ignores=[])):
        if isinstance(node, ast.Call) and isinstance(node.func, ast.Attribute) and node.func.attr in ("append", "pop", "extend", "insert", "clear", "remove") and isinstance(node.func.value, ast.Name):
            if node.func.value.id not in names:
                names.append(node.func.value.id)
    return names


def havoc_value(st, name, v):
    if isinstance(v, (VInt,)) or (isinstance(v, VC) and isinstance(v.py, int) and not isinstance(v.py, bool)):
        return VInt(fresh("h_" + name, INT))
    if isinstance(v, VBool) or (isinstance(v, VC) and isinstance(v.py, bool)):
        return VBool(fresh("h_" + name, z3.BoolSort()))
    if isinstance(v, VFloat) or (isinstance(v, VC) and isinstance(v.py, float)):
        return VFloat(fresh("h_" + name, F64))
    if S.is_strlike(v):
        return VStr(fresh("h_" + name, STR))
    if isinstance(v, VOpq) and isinstance(v.t, z3.ExprRef) and v.t.sort() == INT:
        return VOpq(v.tag, fresh("h_" + name, INT))   # another element of the same opaque family
    raise Unsupported(f"cannot havoc loop-carried variable {name} = {v!r}")


def loop_key(eng, stmt, kind):
    fn = eng.func_stack[-1] if eng.func_stack else "?"
    return f"{fn}@{kind}:{stmt.lineno}"


def exec_for(eng, stmt, st):
    outs = []
    for s, it in eng.ev(stmt.iter, st):
        if isinstance(it, Raise):
            outs.append(Outcome("raise", s, it.exc))
            continue
        from .builtins_model import iter_items

        items = None
        if not isinstance(it, SymRange) and type(it).__name__ != "VAStr":
            items = iter_items(eng, s, it)
        if items is not None:
            outs.extend(_unrolled(eng, stmt, s, items))
        else:
            outs.extend(_with_invariant(eng, stmt, s, it))
    return outs


def _unrolled(eng, stmt, st, items):
    outs = []
    live = [st]
    for x in items:
        nxt = []
        for s in live:
            for o in eng.assign(s, stmt.target, x):
                if o.kind != "normal":
                    outs.append(o)
                    continue
                for b in eng.exec_block(stmt.body, o.st):
                    if b.kind in ("normal", "continue"):
                        nxt.append(b.st)
                    elif b.kind == "break":
                        outs.append(Outcome("normal", b.st))
                    else:
                        outs.append(b)
        live = nxt
    for s in live:
        if stmt.orelse:
            outs.extend(eng.exec_block(stmt.orelse, s))
        else:
            outs.append(Outcome("normal", s))
    return outs


def eval_pred(eng, st, fn, args):
    """Evaluate a Python predicate (def) symbolically to ONE z3 Bool (paths merged)."""
    f = fn if isinstance(fn, VFun) else eng.spec_fun(fn)
    s0 = st.fork()
    base = len(s0.pc)
    terms = []
    for s, v in eng.call(s0, f, args, {}, "spec"):
        delta = s.pc[base:]
        # facts assumed while evaluating the specification (instances of axioms about uninterpreted functions)
        # are true statements: they join the caller's hypotheses instead of becoming part of the predicate
        conds = []
        for p in delta:
            if p.get_id() in s.facts:
                if p.get_id() not in st.facts:
                    st.assume(p)
            else:
                conds.append(p)
        if isinstance(v, Raise):
            continue  # a raising spec path counts as False
        t = S.truth(s, v)
        t = z3.BoolVal(t) if isinstance(t, bool) else t
        terms.append(z3.And(*(conds + [t])) if conds else t)
    return z3.Or(*terms) if terms else z3.BoolVal(False)


def _with_invariant(eng, stmt, st, it):
    key = loop_key(eng, stmt, "for")
    fn_name = eng.func_stack[-1] if eng.func_stack else "?"
    spec = (eng.loop_specs.get(key) or eng.loop_specs.get(f"{fn_name}@for[{ast.unparse(stmt.target)}]") or eng.loop_specs.get(key.split(":")[0]))
    if spec is None:
        raise Unsupported(f"loop over symbolic iterable without invariant: {key}")
    key = f"{fn_name}@for[{ast.unparse(stmt.target)}]"
    if isinstance(it, VList):
        sl = st.store[it.oid]["__sym__"]
        n, at = sl.n, (lambda s, k: sl.at(s, k))
    elif isinstance(it, SymRange):
        n, at = it.hi - it.lo, (lambda s, k: VInt(it.lo + k))
        st.assume(z3.BoolVal(True))
    elif type(it).__name__ == "VAStr":
        from .astr import VChr

        n, at = it.n, (lambda s, k: VChr(it.a[k]))
    else:
        raise Unsupported(f"iteration over {it!r}")
    n = z3.If(n < 0, 0, n) if isinstance(it, SymRange) else n
    outs = []

    clauses = spec.inv_fn if isinstance(spec.inv_fn, (list, tuple)) else [spec.inv_fn]

    def getv(s, v):
        if not v.startswith("ghost:"):
            return eng.lookup(s, v)
        g = s.ghost[v[6:]]
        return VInt(g) if isinstance(g, z3.ExprRef) else g

    def inv_at(s, k):
        args = [VInt(k)] + [getv(s, v) for v in spec.vars]
        return [(getattr(f, "__name__", "inv"), eval_pred(eng, s, f, args)) for f in clauses]

    def oblige(s, k, phase):
        for cname, t in inv_at(s, k):
            s.obligations.append((f"{key}#{spec.name}.{phase}" + (f".{cname}" if len(clauses) > 1 else ""), t))

    def assume_inv(s, k):
        for _, t in inv_at(s, k):
            s.assume(t)

    # (1) initialisation
    oblige(st, z3.IntVal(0), "init")
    # (2) arbitrary iteration
    mods = [m for m in assigned_names(stmt.body + [ast.Assign(targets=[stmt.target], value=ast.Constant(value=0))]) if m in st.env]
    for m in mutated_lists(stmt.body):
        if m in st.env and m not in mods:
            mods.append(m)
    # ghost code attached to statements of the body: what it declares to write is havoced like program variables
    heap_mods = []
    body_srcs = [ast.unparse(x) for x in ast.walk(ast.Module(body=list(stmt.body), type_ignores=[])) if isinstance(x, ast.stmt) and not isinstance(x, (ast.For, ast.While, ast.If, ast.Try))]
    for prefix, _fn, *w in (getattr(eng, "ghost_hooks", None) or []):
        if any(src.startswith(prefix) for src in body_srcs):
            if not w:
                raise Unsupported(f"ghost hook {prefix!r} inside a loop must declare what it writes")
            for name in w[0]:
                if name.startswith("heap:"):
                    heap_mods.append(name)
                elif name in st.env and name not in mods:
                    mods.append(name)
    for x in ast.walk(ast.Module(body=list(stmt.body), type_ignores=[])):
        if isinstance(x, ast.Attribute) and isinstance(x.ctx, ast.Store) and ("heap:" + x.attr) in st.ghost:
            heap_mods.append("heap:" + x.attr)
    body_st = st.fork()
    for h in dict.fromkeys(heap_mods):
        body_st.ghost[h] = fresh("h_" + h[5:], body_st.ghost[h].sort())
    for m in mods:
        if m in spec.lists:
            from .ulist import SymSeq, new_list

            body_st.env[m] = new_list(body_st, SymSeq.fresh(body_st, "h_" + m, spec.lists[m]))
        else:
            body_st.env[m] = havoc_value(body_st, m, body_st.env[m])
    if spec.havoc:
        spec.havoc(eng, body_st)
    after_st = body_st.fork()
    k = fresh("k", INT)
    idx_name = "idx_" + next((x.id for x in ast.walk(stmt.target) if isinstance(x, ast.Name)), "it")
    body_st.assume(z3.And(k >= 0, k < n))
    body_st.env[idx_name] = VInt(k)       # ghost: the iteration index, for invariants of inner loops and ghost hooks
    after_st.env[idx_name] = VInt(n)
    assume_inv(body_st, k)
    # vacuity guard: the hypotheses of the inductive step (invariant at k, k < n, everything known before the loop)
    # must not be contradictory -- checked as "false is not derivable" (contract.py)
    body_st.obligations.append((f"{key}#{spec.name}.step_hypotheses_consistent", ("reachable", list(body_st.pc))))
    for o in eng.assign(body_st, stmt.target, at(body_st, k)):
        if o.kind != "normal":
            outs.append(o)
            continue
        for b in eng.exec_block(stmt.body, o.st):
            if b.kind in ("normal", "continue"):
                # the obligations of this path are checked under its own path condition, then the path ends
                oblige(b.st, k + 1, "preserved")
                outs.append(Outcome("loop-end", b.st))
            elif b.kind == "break":
                outs.append(Outcome("normal", b.st))
            else:
                outs.append(b)
    # (3) after the loop
    assume_inv(after_st, n)
    after_st.obligations.append((f"{key}#{spec.name}.exit_hypotheses_consistent", ("reachable", list(after_st.pc))))
    if stmt.orelse:
        outs.extend(eng.exec_block(stmt.orelse, after_st))
    else:
        outs.append(Outcome("normal", after_st))
    return outs


def _while_with_invariant(eng, stmt, st, spec, key):
    """while loop cut at its head: (1) the invariant holds on entry; (2) from an arbitrary state satisfying it, one
    evaluation of the test and one execution of the body re-establishes it (paths that leave through break / return /
    raise continue after the loop with what is known on them); the exit through a false test carries the invariant."""
    clauses = spec.inv_fn if isinstance(spec.inv_fn, (list, tuple)) else [spec.inv_fn]
    k = fresh("iter", INT)

    def get(s, v):
        if not v.startswith("ghost:"):
            return eng.lookup(s, v)
        g = s.ghost[v[6:]]
        return VInt(g) if isinstance(g, z3.ExprRef) else g

    def inv_at(s):
        args = [VInt(k)] + [get(s, v) for v in spec.vars]
        return [(getattr(f, "__name__", "inv"), eval_pred(eng, s, f, args)) for f in clauses]

    def oblige(s, phase):
        for cname, t in inv_at(s):
            s.obligations.append((f"{key}#{spec.name}.{phase}" + (f".{cname}" if len(clauses) > 1 else ""), t))

    oblige(st, "init")
    mods = [m for m in assigned_names(stmt.body) if m in st.env]
    for m in mutated_lists(stmt.body):
        if m in st.env and m not in mods:
            mods.append(m)
    body_st = st.fork()
    for m in mods:
        if m in spec.lists:
            from .ulist import SymSeq, new_list

            body_st.env[m] = new_list(body_st, SymSeq.fresh(body_st, "h_" + m, spec.lists[m]))
        else:
            body_st.env[m] = havoc_value(body_st, m, body_st.env[m])
    if spec.havoc:
        spec.havoc(eng, body_st)   # ghost state written by the body (through modelled callees)
    body_st.assume(k >= 0)
    for _, t in inv_at(body_st):
        body_st.assume(t)
    body_st.obligations.append((f"{key}#{spec.name}.step_hypotheses_consistent", ("reachable", list(body_st.pc))))

    def variant_at(s):
        f = eng.spec_fun(spec.variant)
        rs = [(s2, v) for s2, v in eng.call(s.fork(), f, [VInt(k)] + [get(s, v) for v in spec.vars], {}, "spec") if not isinstance(v, Raise)]
        if len(rs) != 1:
            raise Unsupported("loop variant must be a single integer expression")
        return S.to_int_term(rs[0][1])

    v0 = variant_at(body_st) if spec.variant else None
    outs = []
    for s2, c in eng.ev(stmt.test, body_st):
        if isinstance(c, Raise):
            outs.append(Outcome("raise", s2, c.exc))
            continue
        for s3, taken in eng.fork_truth(s2, c):
            if not taken:
                outs.extend(eng.exec_block(stmt.orelse, s3) if stmt.orelse else [Outcome("normal", s3)])
                continue
            for b in eng.exec_block(stmt.body, s3):
                if b.kind in ("normal", "continue"):
                    oblige(b.st, "preserved")
                    if v0 is not None:
                        v1 = variant_at(b.st)
                        b.st.obligations.append((f"{key}#{spec.name}.variant_decreases_on_every_back_edge", z3.And(v1 >= 0, v1 < v0)))
                    outs.append(Outcome("loop-end", b.st))
                elif b.kind == "break":
                    outs.append(Outcome("normal", b.st))
                else:
                    outs.append(b)
    return outs


def exec_while(eng, stmt, st, bound=64):
    """while: unrolled while the test is decided by the path condition (concrete control), else needs a spec."""
    fn_name = eng.func_stack[-1] if eng.func_stack else "?"
    wkey = f"{fn_name}@while[{ast.unparse(stmt.test)}]"
    if wkey in eng.loop_specs:
        return _while_with_invariant(eng, stmt, st, eng.loop_specs[wkey], wkey)
    outs = []
    live = [st]
    for it in range(bound + 1):
        nxt = []
        for s in live:
            for s2, c in eng.ev(stmt.test, s):
                if isinstance(c, Raise):
                    outs.append(Outcome("raise", s2, c.exc))
                    continue
                t = S.truth(s2, c)
                if not isinstance(t, bool):
                    key = loop_key(eng, stmt, "while")
                    raise Unsupported(f"while with symbolic test needs an invariant: {key}")
                if not t:
                    outs.append(Outcome("normal", s2))
                    continue
                for b in eng.exec_block(stmt.body, s2):
                    if b.kind in ("normal", "continue"):
                        nxt.append(b.st)
                    elif b.kind == "break":
                        outs.append(Outcome("normal", b.st))
                    else:
                        outs.append(b)
        live = nxt
        if not live:
            return outs
    raise Unsupported("while loop exceeded unrolling bound")
