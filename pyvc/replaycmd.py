"""./check <Cxx> --replay <file>: re-establish a recorded violation on the current working tree.

The check of the property is run again (it rebuilds everything from /repo); the replay succeeds in showing the
violation (exit 1) if the recorded obligation is violated again, and prints observed vs. expected from the new run."""
from __future__ import annotations

import importlib
import json
import os
from pathlib import Path

from . import report as R


def replay_file(prop, path):
    p = Path(path)
    if not p.is_absolute():
        p = R.VERIF / p
    rec = json.loads(p.read_text())
    oid = rec["obligation"]
    print(f"replaying {oid} (property {prop})")
    if rec.get("witness") is not None:
        print("recorded failing input:", json.dumps(rec["witness"], default=repr)[:2000])
        print("recorded observation:", str(rec.get("detail", {}).get("observed"))[:2000])
    mod = importlib.import_module("checks." + prop)
    seen = {}
    orig_finish = R.Report.finish

    def finish(self, *a, **k):
        for ob in self.obs:
            if ob.id == oid:
                seen["ob"] = ob
        return orig_finish(self, *a, **k)

    R.Report.finish = finish
    try:
        mod.run(os.environ.get("VERIF_TIER", "quick"), int(os.environ.get("VERIF_SEED", "0") or 0))
    finally:
        R.Report.finish = orig_finish
    ob = seen.get("ob")
    if ob is None:
        print("obligation is no longer generated on this tree")
        return 2
    print(f"verdict now: {ob.verdict}; witness: {ob.witness}; observed: {ob.detail.get('observed')}")
    return 1 if ob.verdict in (R.VIOLATED, R.KNOWN) else 0
