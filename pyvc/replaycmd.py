"""./check <Cxx> --replay <file>: re-establish a recorded violation on the current working tree.

The check of the property is run again (it rebuilds everything from /repo); the replay succeeds in showing the
violation (exit 1) if the recorded obligation is violated again, and prints observed vs. expected from the new run."""
from __future__ import annotations

import importlib
import json
import os
from pathlib import Path

from . import report as R


def replay_file(prop, path):
    p = Path(path)
    if not p.is_absolute():
        p = R.VERIF / p
    rec = json.loads(p.read_text())
    oid = rec["obligation"]
    print(f"replaying {oid} (property {prop})")
    if rec.get("witness") is not None:
        print("recorded failing input:", json.dumps(rec["witness"], default=repr)[:2000])
        print("recorded observation:", str(rec.get("detail", {}).get("observed"))[:2000])
    w = rec.get("witness") or {}
    if isinstance(w, dict) and "sources" in w:
        # bounded obligation: re-run the recorded program under the recorded options on the current tree
        from bounded import props as P

        orig = P.vectors
        try:
            P.vectors = lambda kind, _o=[w.get("options") or {}]: list(_o)
            r = P.full_task((w.get("seed", 0), {"sources": w["sources"]}, "default", ["C01", "C02", "C05", "C06", "C07", "C07a", "C09", "C17"]))
        finally:
            P.vectors = orig
        print("status:", r["status"], r.get("detail", ""))
        for k, fs in r.get("fails", {}).items():
            for f in fs[:3]:
                print(f"  {k}: {f['what'][:400]}")
        relevant = [k for k in r.get("fails", {}) if k.startswith(prop) or (prop in ("C04", "C13") and k in ("C01", "C02"))]
        return 1 if relevant else 0
    mod = importlib.import_module("checks." + prop)
    seen = {}
    orig_finish = R.Report.finish

    def finish(self, *a, **k):
        for ob in self.obs:
            if ob.id == oid:
                seen["ob"] = ob
        return orig_finish(self, *a, **k)

    R.Report.finish = finish
    try:
        mod.run(os.environ.get("VERIF_TIER", "quick"), int(os.environ.get("VERIF_SEED", "0") or 0))
    finally:
        R.Report.finish = orig_finish
    ob = seen.get("ob")
    if ob is None:
        print("obligation is no longer generated on this tree")
        return 2
    print(f"verdict now: {ob.verdict}; witness: {ob.witness}; observed: {ob.detail.get('observed')}")
    return 1 if ob.verdict in (R.VIOLATED, R.KNOWN) else 0
