"""String / bytes methods.  Quantifier-free operations use z3's native sequence theory;
operations the solvers cannot decide (strip, replace, split) are uninterpreted functions with
the axioms listed next to them - shared by code and specification, so equal uses are equal."""
from __future__ import annotations

import z3

from . import pysem as S
from .pysem import exc, lift, vbool
from .state import Raise, fresh
from .values import *

STR = z3.StringSort()
UF_STRIP = z3.Function("py_str_strip", STR, STR)
UF_LSTRIP = z3.Function("py_str_lstrip", STR, STR)
UF_RSTRIP = z3.Function("py_str_rstrip", STR, STR, STR)
UF_REPLACE = z3.Function("py_str_replace", STR, STR, STR, STR)
UF_UPPER = z3.Function("py_str_upper", STR, STR)
UF_ENCODE = z3.Function("py_str_encode_utf8", STR, STR)
UF_DECODE = z3.Function("py_bytes_decode_utf8", STR, STR)
UF_DECODABLE = z3.Function("py_bytes_is_utf8", STR, z3.BoolSort())
UF_LJUST = z3.Function("py_str_ljust", STR, z3.IntSort(), STR)


def _one(st, v):
    return [(st, v)]


UF_LINECOUNT = z3.Function("py_str_linecount", STR, z3.IntSort())
UF_LINE = z3.Function("py_str_line", STR, z3.IntSort(), STR)


def str_method(eng, st, recv, name, args, kwargs, origin):
    if isinstance(recv, VC) and all(isinstance(a, VC) for a in args) and all(isinstance(a, VC) for a in kwargs.values()):
        try:
            r = getattr(recv.py, name)(*[a.py for a in args], **{k: v.py for k, v in kwargs.items()})
        except Exception as e:
            return _one(st, exc(type(e).__name__, str(e), origin))
        if isinstance(r, list):
            return _one(st, st.new_list([lift(x) for x in r]))
        if isinstance(r, bytes):
            return _one(st, VC(r))
        return _one(st, lift(r))
    s = S.to_str_term(recv)
    if name == "startswith":
        a = args[0]
        if isinstance(a, VTuple):
            return _one(st, vbool(z3.Or(*[z3.PrefixOf(S.to_str_term(x), s) for x in a.items])))
        return _one(st, vbool(z3.PrefixOf(S.to_str_term(a), s)))
    if name == "endswith":
        return _one(st, vbool(z3.SuffixOf(S.to_str_term(args[0]), s)))
    if name == "strip" and not args:
        eng.use("str.strip(): uninterpreted, axioms: idempotent; no leading/trailing blank; strip(s) is a substring of s; strip(s)=s when s has no blank at either end")
        r = UF_STRIP(s)
        st.assume(z3.Length(r) <= z3.Length(s))
        st.assume(UF_STRIP(r) == r)
        st.assume(z3.Contains(s, r))
        return _one(st, VStr(r))
    if name == "lstrip" and not args:
        eng.use("str.lstrip(): uninterpreted; result is a suffix of the receiver")
        r = UF_LSTRIP(s)
        st.assume(z3.SuffixOf(r, s))
        return _one(st, VStr(r))
    if name == "rstrip" and len(args) == 1:
        eng.use("str.rstrip(chars): uninterpreted; result is a prefix of the receiver")
        r = UF_RSTRIP(s, S.to_str_term(args[0]))
        st.assume(z3.PrefixOf(r, s))
        return _one(st, VStr(r))
    if name == "replace" and len(args) == 2:
        eng.use("str.replace(a,b): uninterpreted function of (s,a,b); len preserved when len(a)=len(b)=1")
        a, b = S.to_str_term(args[0]), S.to_str_term(args[1])
        r = UF_REPLACE(s, a, b)
        if isinstance(args[0], VC) and isinstance(args[1], VC) and len(args[0].py) == 1 and len(args[1].py) == 1:
            st.assume(z3.Length(r) == z3.Length(s))
            st.assume(z3.Not(z3.Contains(r, a)) if args[0].py != args[1].py else z3.BoolVal(True))
        return _one(st, VStr(r))
    if name == "upper":
        return _one(st, VStr(UF_UPPER(s)))
    if name == "encode":
        eng.use("str.encode()/bytes.decode(): UTF-8, mutually inverse on valid text")
        r = UF_ENCODE(s)
        st.assume(UF_DECODABLE(r))
        st.assume(UF_DECODE(r) == s)
        return _one(st, VBytes(r))
    if name == "split":
        return str_split(eng, st, recv, args, kwargs, origin)
    if name == "splitlines":
        from .loops import SymList

        eng.use("str.splitlines(): opaque list of symbolic lines; its length and elements are functions of the string")
        return _one(st, SymList.fresh_str_list(st, "lines", n=UF_LINECOUNT(s), elem=lambda i, _s=s: UF_LINE(_s, i)))
    if name == "ljust":
        return _one(st, VStr(UF_LJUST(s, S.to_int_term(args[0]))))
    if name == "format":
        raise Unsupported("str.format on symbolic")
    if name == "find":
        return _one(st, VInt(z3.IndexOf(s, S.to_str_term(args[0]), 0)))
    if name == "join":
        from .builtins_model import iter_items

        items = iter_items(eng, st, args[0])
        if items is None:
            f = z3.Function("py_str_join_" + str(args[0].oid if hasattr(args[0], "oid") else 0), STR, STR)
            return _one(st, VStr(f(s)))
        if not items:
            return _one(st, VC(""))
        parts = []
        for i, it in enumerate(items):
            if i:
                parts.append(s)
            parts.append(S.to_str_term(it))
        return _one(st, VStr(z3.Concat(*parts)) if len(parts) > 1 else VStr(parts[0]))
    raise Unsupported(f"str.{name} on symbolic string at {origin}")


def str_split(eng, st, recv, args, kwargs, origin):
    """s.split(sep, 1) -> exact: two cases.  s.split(sep) -> opaque list of parts."""
    s = S.to_str_term(recv)
    if not args:
        raise Unsupported("split() on whitespace")
    sep = S.to_str_term(args[0])
    maxsplit = args[1] if len(args) > 1 else kwargs.get("maxsplit")
    if maxsplit is not None and isinstance(maxsplit, VC) and maxsplit.py == 1:
        outs = []
        has = z3.Contains(s, sep)
        s0 = eng.branch(st, z3.Not(has))
        if s0 is not None:
            outs.append((s0, s0.new_list([recv])))
        s1 = eng.branch(st, has)
        if s1 is not None:
            i = z3.IndexOf(s, sep, 0)
            before = z3.SubString(s, 0, i)
            after = z3.SubString(s, i + z3.Length(sep), z3.Length(s) - i - z3.Length(sep))
            outs.append((s1, s1.new_list([VStr(before), VStr(after)])))
        return outs
    if maxsplit is None:
        from .loops import SymList

        eng.use("str.split(sep): opaque non-empty list of symbolic parts, none containing sep")
        return _one(st, SymList.fresh_str_list(st, "parts", nonempty=True, not_containing=sep))
    raise Unsupported("split with symbolic maxsplit")


def bytes_method(eng, st, recv, name, args, kwargs, origin):
    if isinstance(recv, VC):
        if all(isinstance(a, VC) for a in args):
            try:
                return _one(st, lift(getattr(recv.py, name)(*[a.py for a in args])))
            except Exception as e:
                return _one(st, exc(type(e).__name__, str(e), origin))
        raise Unsupported("bytes method with symbolic args")
    if name == "decode":
        eng.use("str.encode()/bytes.decode(): UTF-8, mutually inverse on valid text")
        ok = UF_DECODABLE(recv.t)
        outs = []
        enc = args[0].py if args else "utf-8"
        if enc == "ascii":
            # caller must know the bytes are ASCII
            okc = z3.Function("py_bytes_is_ascii", STR, z3.BoolSort())(recv.t)
            s0 = eng.branch(st, z3.Not(okc))
            if s0 is not None:
                outs.append((s0, exc("UnicodeDecodeError", "ascii", origin)))
            s1 = eng.branch(st, okc)
            if s1 is not None:
                s1.assume(UF_DECODE(recv.t) == recv.t)
                outs.append((s1, VStr(recv.t)))
            return outs
        s0 = eng.branch(st, z3.Not(ok))
        if s0 is not None:
            outs.append((s0, exc("UnicodeDecodeError", "utf-8", origin)))
        s1 = eng.branch(st, ok)
        if s1 is not None:
            outs.append((s1, VStr(UF_DECODE(recv.t))))
        return outs
    raise Unsupported(f"bytes.{name}")
