"""Builtins, attribute/item protocol, str/list/dict/set methods for the symbolic executor."""
from __future__ import annotations

import ast

import z3

from . import pysem as S
from .pysem import exc, lift, truth, vbool
from .state import Outcome, Raise, fresh
from .values import *


class ClassInfo:
    """A class of the real source: its methods/properties come from the AST re-read on every run."""

    def __init__(self, name, node: ast.ClassDef | None, bases=(), fields=(), is_dataclass=False):
        self.name = name
        self.node = node
        self.bases = list(bases)
        self.fields = list(fields)  # dataclass fields in order: (name, default ast or None)
        self.is_dataclass = is_dataclass
        self.methods = {}
        self.properties = {}
        self.class_attrs = {}
        if node is not None:
            for item in node.body:
                if isinstance(item, ast.FunctionDef):
                    decs = [ast.unparse(d) for d in item.decorator_list]
                    if "property" in decs:
                        self.properties[item.name] = item
                    else:
                        self.methods[item.name] = item
                elif isinstance(item, ast.AnnAssign) and isinstance(item.target, ast.Name):
                    self.class_attrs[item.target.id] = item.value
                elif isinstance(item, ast.Assign) and isinstance(item.targets[0], ast.Name):
                    self.class_attrs[item.targets[0].id] = item.value


def class_from_source(tree: ast.Module, name: str) -> ClassInfo:
    for node in ast.walk(tree):
        if isinstance(node, ast.ClassDef) and node.name == name:
            decs = [ast.unparse(d) for d in node.decorator_list]
            is_dc = any(d.startswith("dataclass") for d in decs)
            fields = []
            if is_dc:
                for item in node.body:
                    if isinstance(item, ast.AnnAssign) and isinstance(item.target, ast.Name):
                        fields.append((item.target.id, item.value))
            bases = [ast.unparse(b) for b in node.bases]
            return ClassInfo(name, node, bases, fields, is_dc)
    raise Unsupported(f"class {name} not found in source")


def mro(eng, ci):
    out = [ci]
    for b in ci.bases:
        bi = eng.classes.get(b)
        if bi is not None:
            for x in mro(eng, bi):
                if x not in out:
                    out.append(x)
    return out


def all_fields(eng, ci):
    fields = []
    for c in reversed(mro(eng, ci)):
        if c.is_dataclass:
            for f in c.fields:
                fields = [x for x in fields if x[0] != f[0]] + [f]
    return fields


def find_member(eng, ci, name):
    for c in mro(eng, ci):
        if name in c.properties:
            return "property", c.properties[name], c
        if name in c.methods:
            return "method", c.methods[name], c
        if name in c.class_attrs:
            return "attr", c.class_attrs[name], c
    return None


def is_instance_of_class(eng, clsname, target):
    ci = eng.classes.get(clsname)
    if ci is None:
        return clsname == target
    return any(c.name == target for c in mro(eng, ci))


# ------------------------------------------------------------------------------------ builtins
def bi(fn):
    return VFun("builtin", fn=fn, name=fn.__name__)


def install(eng):
    w = eng.world
    w.setdefault("True", VC(True))
    for name in EXC_PARENT:
        if "." not in name:
            w.setdefault(name, VType(name))
    for name, fn in BUILTINS.items():
        w.setdefault(name, bi(fn))
    for t in ("int", "float", "str", "bool", "list", "tuple", "dict", "set", "bytes", "complex", "type", "property", "object"):
        pass


def _one(st, v):
    return [(st, v)]


def b_len(eng, st, args, kw, origin):
    (a,) = args
    if isinstance(a, VC):
        try:
            return _one(st, VC(len(a.py)))
        except TypeError as e:
            return _one(st, exc("TypeError", str(e), origin))
    if isinstance(a, VStr):
        return _one(st, VInt(z3.Length(a.t)))
    if type(a).__name__ == "VAStr":
        return _one(st, VInt(a.n))
    if type(a).__name__ == "VChr":
        return _one(st, VC(1))
    if isinstance(a, VBytes):
        return _one(st, VInt(z3.Length(a.t)))
    if isinstance(a, VTuple):
        return _one(st, VC(len(a.items)))
    if isinstance(a, (VList, VDict, VSet)):
        c = st.store[a.oid]
        if isinstance(c, dict) and "__sym__" in c:
            return _one(st, c["__sym__"].length(st))
        return _one(st, VC(len(c)))
    if isinstance(a, (VInt, VFloat, VBool)):
        return _one(st, exc("TypeError", f"object of type '{S.type_name(a)}' has no len()", origin))
    raise Unsupported(f"len({a!r})")


def b_int(eng, st, args, kw, origin):
    if len(args) == 2:
        a, base = args
        if isinstance(a, VC) and isinstance(base, VC):
            try:
                return _one(st, VC(int(a.py, base.py)))
            except Exception as e:
                return _one(st, exc(type(e).__name__, str(e), origin))
        raise Unsupported("int(symbolic, base)")
    if not args:
        return _one(st, VC(0))
    return S.py_int(eng, st, args[0], origin)


def b_float(eng, st, args, kw, origin):
    return S.py_float(eng, st, args[0], origin)


def b_str(eng, st, args, kw, origin):
    if not args:
        return _one(st, VC(""))
    return S.py_str(eng, st, args[0], origin)


def b_bool(eng, st, args, kw, origin):
    if not args:
        return _one(st, VC(False))
    return _one(st, vbool(truth(st, args[0])))


def b_abs(eng, st, args, kw, origin):
    (a,) = args
    if isinstance(a, VC):
        return _one(st, lift(abs(a.py)))
    if isinstance(a, VFloat):
        return _one(st, VFloat(z3.fpAbs(a.t)))
    if isinstance(a, (VInt, VBool)):
        t = S.to_int_term(a)
        return _one(st, VInt(z3.If(t >= 0, t, -t)))
    raise Unsupported(f"abs({a!r})")


def b_isinstance(eng, st, args, kw, origin):
    v, t = args
    types = t.items if isinstance(t, VTuple) else [t]
    res = False
    for ty in types:
        r = _isinstance1(eng, st, v, ty)
        if r is True:
            return _one(st, VC(True))
        if r is not False:
            res = r if res is False else z3.Or(res, r)
    return _one(st, vbool(res))


PY_TYPES = {"int": int, "float": float, "str": str, "bool": bool, "bytes": bytes, "tuple": tuple, "list": list,
            "dict": dict, "set": set, "complex": complex, "NoneType": type(None)}


def _isinstance1(eng, st, v, ty):
    if isinstance(ty, VFun) and ty.kind == "builtin" and ty.name.startswith("b_") and ty.name[2:] in PY_TYPES:
        ty = VType(ty.name[2:])
    if not isinstance(ty, VType):
        raise Unsupported(f"isinstance second argument {ty!r}")
    n = ty.name
    if isinstance(v, VC):
        if n in PY_TYPES:
            return isinstance(v.py, PY_TYPES[n])
        if n == "IntEnum" or n == "enum.IntEnum":
            return False
        return False
    if isinstance(v, VBool):
        return n in ("bool", "int")
    if isinstance(v, VInt):
        return n == "int"
    if isinstance(v, VFloat):
        return n == "float"
    if isinstance(v, VStr):
        return n == "str"
    if type(v).__name__ == "VAStr":
        return n == ("bytes" if v.is_bytes else "str")
    if type(v).__name__ == "VChr":
        return n == "str"
    if isinstance(v, VBytes):
        return n == "bytes"
    if isinstance(v, VComplex):
        return n == "complex"
    if isinstance(v, VTuple):
        return n == "tuple"
    if isinstance(v, VList):
        return n == "list"
    if isinstance(v, VDict):
        return n == "dict"
    if isinstance(v, VSet):
        return n == "set"
    if isinstance(v, VObj):
        cls = st.store[v.oid]["__class__"]
        return is_instance_of_class(eng, cls, n)
    if isinstance(v, VExc):
        return exc_is_subclass(v.cls, n)
    if isinstance(v, VOpq):
        h = eng.world.get("__isinstance__:" + v.tag)
        if h is not None:
            return h(eng, st, v, n)   # bool or z3 Bool: the class of this opaque value is symbolic
        # opaque value with declared kind tag "kind:<Class>"; other classes -> False
        decl = eng.world.get("__opaque_classes__", {}).get(v.tag)
        if decl is not None:
            return n in decl
        if n in PY_TYPES:
            return False
        raise Unsupported(f"isinstance({v!r}, {n})")
    if isinstance(v, (VFun, VMod)):
        return False
    if isinstance(v, VType):
        return n == "type"
    raise Unsupported(f"isinstance({v!r}, {n})")


def b_range(eng, st, args, kw, origin):
    if all(isinstance(a, VC) for a in args):
        return _one(st, VC(range(*[a.py for a in args])))
    from .loops import SymRange

    return _one(st, SymRange.make(st, args))


def b_enumerate(eng, st, args, kw, origin):
    (a,) = args[:1]
    items = iter_items(eng, st, a)
    if items is None:
        raise Unsupported("enumerate over symbolic iterable")
    return _one(st, st.new_list([VTuple([VC(i), x]) for i, x in enumerate(items)]))


def iter_items(eng, st, a):
    """Concrete-length iteration: list of V, or None if the length is symbolic."""
    if isinstance(a, VC):
        if isinstance(a.py, (str, tuple, list, range, bytes, dict, set, frozenset)):
            return [lift(x) for x in a.py]
        raise Unsupported(f"iteration over {a!r}")
    if isinstance(a, VTuple):
        return list(a.items)
    if isinstance(a, VList):
        c = st.store[a.oid]
        if isinstance(c, dict):
            return None
        return list(c)
    if isinstance(a, VDict):
        c = st.store[a.oid]
        if "__sym__" in c:
            return None
        return [lift(k[1]) for k in c.keys()]
    if isinstance(a, VSet):
        c = st.store[a.oid]
        if "__sym__" in c:
            return None
        return [lift(k[1]) for k in c.keys()]
    return None


def b_list(eng, st, args, kw, origin):
    if not args:
        return _one(st, st.new_list([]))
    items = iter_items(eng, st, args[0])
    if items is None:
        raise Unsupported("list(symbolic iterable)")
    return _one(st, st.new_list(items))


def b_tuple(eng, st, args, kw, origin):
    if not args:
        return _one(st, VTuple([]))
    items = iter_items(eng, st, args[0])
    if items is None:
        raise Unsupported("tuple(symbolic iterable)")
    return _one(st, VTuple(items))


def b_set(eng, st, args, kw, origin):
    if not args:
        return _one(st, st.new_set([]))
    items = iter_items(eng, st, args[0])
    if items is None:
        raise Unsupported("set(symbolic iterable)")
    return _one(st, st.new_set([eng.hashkey(x) for x in items]))


def b_dict(eng, st, args, kw, origin):
    if args:
        raise Unsupported("dict(arg)")
    return _one(st, st.new_dict({("c", k): v for k, v in kw.items()}))


def b_min(eng, st, args, kw, origin):
    return _minmax(eng, st, args, origin, True)


def b_max(eng, st, args, kw, origin):
    return _minmax(eng, st, args, origin, False)


def _minmax(eng, st, args, origin, is_min):
    if len(args) == 1:
        items = iter_items(eng, st, args[0])
        if items is None:
            raise Unsupported("min/max of symbolic iterable")
    else:
        items = list(args)
    if all(isinstance(a, VC) for a in items):
        return _one(st, lift((min if is_min else max)([a.py for a in items])))
    if all(S.is_intlike(a) for a in items):
        cur = S.to_int_term(items[0])
        for a in items[1:]:
            t = S.to_int_term(a)
            cur = z3.If((t < cur) if is_min else (t > cur), t, cur)
        return _one(st, VInt(cur))
    raise Unsupported("min/max of mixed values")


def b_ord(eng, st, args, kw, origin):
    (a,) = args
    if isinstance(a, VC):
        return _one(st, VC(ord(a.py)))
    if isinstance(a, VStr):
        return _one(st, VInt(z3.StrToCode(a.t)))
    if type(a).__name__ == "VChr":
        return _one(st, VInt(a.c))
    raise Unsupported("ord")


def b_print(eng, st, args, kw, origin):
    target = kw.get("file")
    key = "print:" + (getattr(target, "tag", None) or (target.name if isinstance(target, VMod) else "sys.stdout" if target is None else repr(target)))
    st.ghost[key] = st.ghost.get(key, 0) + 1
    st.events.append((key, tuple(args)))
    return _one(st, VC(None))


def b_hasattr(eng, st, args, kw, origin):
    obj, name = args
    h = eng.world.get("__hasattr__")
    if h is not None:
        r = h(eng, st, obj, name, origin)
        if r is not None:
            return r
    if isinstance(name, VC) and isinstance(obj, VObj):
        d = st.store[obj.oid]
        if name.py in d:
            return _one(st, VC(True))
        ci = eng.classes.get(d["__class__"])
        if ci is not None:
            return _one(st, VC(find_member(eng, ci, name.py) is not None))
    raise Unsupported(f"hasattr({obj!r}, {name!r})")


def b_getattr(eng, st, args, kw, origin):
    obj, name = args[0], args[1]
    if isinstance(name, VC):
        outs = []
        for s, v in eng.get_attr(st, obj, name.py, origin):
            if isinstance(v, Raise) and v.exc.cls == "AttributeError" and len(args) == 3:
                outs.append((s, args[2]))
            else:
                outs.append((s, v))
        return outs
    raise Unsupported("getattr with symbolic name")


def b_setattr(eng, st, args, kw, origin):
    obj, name, v = args
    h = eng.world.get("__setattr__")
    if h is not None:
        r = h(eng, st, obj, name, v, origin)
        if r is not None:
            return r
    if isinstance(name, VC):
        outs = []
        for o in eng.set_attr(st, obj, name.py, v, origin):
            outs.append((o.st, Raise(o.val) if o.kind == "raise" else VC(None)))
        return outs
    if S.is_strlike(name) and isinstance(obj, VObj):
        # symbolic attribute name on a record: one path per existing field; an unknown name would create a new attribute
        fields = [k for k in st.store[obj.oid] if not k.startswith("__")]
        outs, conds = [], []
        for f in fields:
            c = S.eq(eng, st, name, VC(f))
            conds.append(c)
            s1 = eng.branch(st, c)
            if s1 is not None:
                s1.store[obj.oid][f] = v
                outs.append((s1, VC(None)))
        s0 = eng.branch(st, z3.Not(z3.Or(*conds)) if conds else True)
        if s0 is not None:
            raise Unsupported("setattr with a symbolic name that may not be an existing field")
        return outs
    raise Unsupported("setattr with symbolic name")


def b_sorted(eng, st, args, kw, origin):
    items = iter_items(eng, st, args[0])
    if items is not None and all(isinstance(x, VC) for x in items) and "key" not in kw:
        return _one(st, st.new_list([lift(x) for x in sorted(x.py for x in items)]))
    raise Unsupported("sorted of symbolic values")


def b_type(eng, st, args, kw, origin):
    (a,) = args
    if isinstance(a, VObj):
        return _one(st, VType(st.store[a.oid]["__class__"]))
    return _one(st, VType(S.type_name(a)))


def b_repr(eng, st, args, kw, origin):
    (a,) = args
    if isinstance(a, VC):
        return _one(st, VC(repr(a.py)))
    raise Unsupported("repr of symbolic")


BUILTINS = {
    "len": b_len, "int": b_int, "float": b_float, "str": b_str, "bool": b_bool, "abs": b_abs,
    "isinstance": b_isinstance, "range": b_range, "enumerate": b_enumerate, "list": b_list, "tuple": b_tuple,
    "set": b_set, "dict": b_dict, "min": b_min, "max": b_max, "ord": b_ord, "print": b_print,
    "hasattr": b_hasattr, "getattr": b_getattr, "setattr": b_setattr, "sorted": b_sorted, "type": b_type,
    "repr": b_repr,
}
# the names int/float/str/... are also used as types in isinstance():
TYPE_NAMES = ("int", "float", "str", "bool", "bytes", "tuple", "list", "dict", "set", "complex")


# ------------------------------------------------------------------------------------ attribute protocol
def get_attr(eng, st, obj, name, origin):
    if isinstance(obj, VMod):
        if name in obj.attrs:
            return _one(st, obj.attrs[name])
        key = f"{obj.name}.{name}"
        if key in eng.world:
            return _one(st, eng.world[key])
        if ("global:" + key) in eng.world:
            return _one(st, st.globals.get(key, eng.world["global:" + key]))
        pm = getattr(obj, "pymod", None)
        if pm is not None and hasattr(pm, name):
            v = eng.from_python(getattr(pm, name))
            if v is not None:
                return _one(st, v)
        raise Unsupported(f"unmodelled module attribute {key} at {origin}")
    if isinstance(obj, VObj):
        d = st.store[obj.oid]
        if name in d:
            return _one(st, d[name])
        ci = eng.classes.get(d["__class__"])
        if ci is not None:
            m = find_member(eng, ci, name)
            if m is not None:
                kind, node, owner = m
                if kind == "property":
                    f = VFun("def", node=node, closure={}, name=f"{owner.name}.{name}")
                    eng.use(f"inlined accessor {owner.name}.{name} (real source, re-read each run)")
                    return eng.call_ast(st, f, [obj], {}, origin)
                if kind == "method":
                    f = VFun("def", node=node, closure={}, name=f"{owner.name}.{name}")
                    c = eng.world.get(f"contract:{owner.name}.{name}")
                    if c is not None:
                        f = c
                    return _one(st, VFun("bound", func=f, self=obj, name=f"{owner.name}.{name}"))
                if kind == "attr":
                    if node is None:
                        return _one(st, exc("AttributeError", name, origin))
                    r = eng.ev(node, st)
                    return r
        h = eng.world.get("__getattr__:" + d["__class__"])
        if h is not None:
            return h(eng, st, obj, name, origin)
        return _one(st, exc("AttributeError", f"'{d['__class__']}' object has no attribute '{name}'", origin))
    if isinstance(obj, VExc):
        if name in obj.attrs:
            return _one(st, obj.attrs[name])
        if name == "args":
            return _one(st, VTuple(obj.args))
        h = eng.world.get("__excattr__")
        if h is not None:
            r = h(eng, st, obj, name, origin)
            if r is not None:
                return r
        raise Unsupported(f"exception attribute {name}")
    if isinstance(obj, VFun) and name in ("__name__", "__qualname__"):
        return _one(st, VC(str(getattr(obj, "name", "function"))))
    if isinstance(obj, VType):
        key = f"{obj.name}.{name}"
        if key in eng.world:
            return _one(st, eng.world[key])
        if name == "__name__":
            return _one(st, VC(obj.name))
        raise Unsupported(f"class attribute {key}")
    if isinstance(obj, VC) and obj.py is None:
        return _one(st, exc("AttributeError", f"'NoneType' object has no attribute '{name}'", origin))
    if isinstance(obj, VOpq):
        h = eng.world.get("__opqattr__:" + obj.tag)
        if h is not None:
            return h(eng, st, obj, name, origin)
        raise Unsupported(f"attribute {name} of opaque {obj.tag} at {origin}")
    if isinstance(obj, (VC, VStr, VInt, VFloat, VBool, VList, VDict, VSet, VTuple, VBytes)):
        # bound method object of a builtin type
        return _one(st, VFun("builtin", fn=lambda e, s, a, k, o, _r=obj, _n=name: call_method(e, s, _r, _n, a, k, o), name=name))
    raise Unsupported(f"attribute {name} of {obj!r} at {origin}")


def set_attr(eng, st, obj, name, v, origin):
    if isinstance(obj, VObj):
        st.store[obj.oid][name] = v
        return [Outcome("normal", st)]
    if isinstance(obj, VMod):
        key = f"{obj.name}.{name}"
        st.globals[key] = v
        return [Outcome("normal", st)]
    h = eng.world.get("__setattr_opq__")
    if h is not None and isinstance(obj, VOpq):
        return h(eng, st, obj, name, v, origin)
    raise Unsupported(f"attribute store on {obj!r} at {origin}")


def construct(eng, st, ci, args, kwargs, origin):
    """Instantiate a class of the real source: hand-written __init__ is executed, dataclass __init__ is field assignment."""
    init = find_member(eng, ci, "__init__")
    obj = st.new_obj(ci.name, {})
    if init is not None and init[0] == "method":
        f = VFun("def", node=init[1], closure={}, name=f"{ci.name}.__init__")
        outs = []
        for s, r in eng.call_ast(st, f, [obj] + list(args), kwargs, origin):
            outs.append((s, r if isinstance(r, Raise) else obj))
        return outs
    fields = all_fields(eng, ci)
    names = [f[0] for f in fields]
    if len(args) > len(names):
        return _one(st, exc("TypeError", "too many arguments", origin))
    d = st.store[obj.oid]
    for n, a in zip(names, args):
        d[n] = a
    for k, v2 in kwargs.items():
        if k not in names or k in d:
            return _one(st, exc("TypeError", f"unexpected keyword {k}", origin))
        d[k] = v2
    for n, default in fields:
        if n not in d:
            if default is None:
                return _one(st, exc("TypeError", f"missing argument {n}", origin))
            if isinstance(default, ast.Call) and ast.unparse(default.func) == "field":
                fac = [k.value for k in default.keywords if k.arg == "default_factory"]
                if fac and ast.unparse(fac[0]) == "list":
                    d[n] = st.new_list([])
                    continue
                raise Unsupported("dataclass field()")
            r = eng.ev(default, st)
            d[n] = r[0][1]
    return _one(st, obj)


# ------------------------------------------------------------------------------------ items and slices
def _norm_index(n, i):
    return z3.If(i < 0, i + n, i)


def get_item(eng, st, obj, idx, origin):
    if type(obj).__name__ == "VAStr":
        from . import astr

        return astr.get_item(eng, st, obj, idx, origin)
    if isinstance(obj, VC) and isinstance(idx, VC):
        try:
            return _one(st, lift(obj.py[idx.py]))
        except Exception as e:
            return _one(st, exc(type(e).__name__, str(e), origin))
    if isinstance(obj, (VTuple, VList)) and isinstance(idx, VC) and isinstance(idx.py, int):
        items = obj.items if isinstance(obj, VTuple) else st.store[obj.oid]
        if isinstance(items, dict):
            return items["__sym__"].get(eng, st, idx, origin)
        try:
            return _one(st, items[idx.py])
        except IndexError:
            return _one(st, exc("IndexError", "index out of range", origin))
    if isinstance(obj, VList) and isinstance(st.store[obj.oid], dict):
        return st.store[obj.oid]["__sym__"].get(eng, st, idx, origin)
    if isinstance(obj, VDict):
        c = st.store[obj.oid]
        if "__sym__" in c:
            return c["__sym__"].get(eng, st, idx, origin)
        k = eng.hashkey(idx)
        if k in c:
            return _one(st, c[k])
        return _one(st, exc("KeyError", repr(idx), origin))
    if S.is_strlike(obj) and S.is_intlike(idx):
        s, i = S.to_str_term(obj), S.to_int_term(idx)
        n = z3.Length(s)
        j = _norm_index(n, i)
        outs = []
        ok = z3.And(j >= 0, j < n)
        s1 = eng.branch(st, ok)
        if s1 is not None:
            outs.append((s1, VStr(z3.SubString(s, j, 1))))
        s0 = eng.branch(st, z3.Not(ok))
        if s0 is not None:
            outs.append((s0, exc("IndexError", "string index out of range", origin)))
        return outs
    if isinstance(obj, (VTuple, VList)) and S.is_intlike(idx):
        items = obj.items if isinstance(obj, VTuple) else st.store[obj.oid]
        i = S.to_int_term(idx)
        outs = []
        n = len(items)
        for k in range(-n, n):
            s1 = eng.branch(st, i == k)
            if s1 is not None:
                outs.append((s1, items[k]))
        s0 = eng.branch(st, z3.Or(i < -n, i >= n))
        if s0 is not None:
            outs.append((s0, exc("IndexError", "index out of range", origin)))
        return outs
    h = eng.world.get("__getitem__")
    if h is not None:
        r = h(eng, st, obj, idx, origin)
        if r is not None:
            return r
    if isinstance(obj, VC) and obj.py is None:
        return _one(st, exc("TypeError", "'NoneType' object is not subscriptable", origin))
    raise Unsupported(f"subscript {obj!r}[{idx!r}] at {origin}")


def set_item(eng, st, obj, idx, v, origin):
    if isinstance(obj, VDict):
        c = st.store[obj.oid]
        if "__sym__" in c:
            return c["__sym__"].set(eng, st, idx, v, origin)
        c[eng.hashkey(idx)] = v
        return [Outcome("normal", st)]
    if isinstance(obj, VList):
        c = st.store[obj.oid]
        if isinstance(c, dict):
            return c["__sym__"].set(eng, st, idx, v, origin)
        if isinstance(idx, VC):
            try:
                c[idx.py] = v
                return [Outcome("normal", st)]
            except IndexError:
                return [Outcome("raise", st, VExc("IndexError", (), origin=origin))]
    raise Unsupported(f"item store {obj!r}[{idx!r}]")


def get_slice(eng, st, obj, lo, hi, step, origin):
    if not (isinstance(step, VC) and step.py is None):
        raise Unsupported("slice step")
    if isinstance(obj, VC) and isinstance(lo, VC) and isinstance(hi, VC):
        return _one(st, lift(obj.py[lo.py : hi.py]))
    if S.is_strlike(obj):
        s = S.to_str_term(obj)
        n = z3.Length(s)

        def bound(b, default):
            if isinstance(b, VC) and b.py is None:
                return default
            t = S.to_int_term(b)
            t = z3.If(t < 0, t + n, t)
            return z3.If(t < 0, 0, z3.If(t > n, n, t))

        a, b = bound(lo, z3.IntVal(0)), bound(hi, n)
        ln = z3.If(b > a, b - a, 0)
        return _one(st, VStr(z3.SubString(s, a, ln)))
    if isinstance(obj, (VTuple, VList)) and isinstance(lo, VC) and isinstance(hi, VC):
        items = obj.items if isinstance(obj, VTuple) else st.store[obj.oid]
        if isinstance(items, dict):
            raise Unsupported("slice of symbolic list")
        r = list(items)[lo.py : hi.py]
        return _one(st, VTuple(r) if isinstance(obj, VTuple) else st.new_list(r))
    raise Unsupported(f"slice of {obj!r}")


def contains(eng, st, container, item, origin):
    """-> [(st, bool|z3 Bool|Raise)]"""
    if isinstance(container, VC) and isinstance(item, VC):
        try:
            return [(st, item.py in container.py)]
        except TypeError as e:
            return [(st, exc("TypeError", str(e), origin))]
    if type(item).__name__ == "VChr":
        from . import astr

        r = astr.contains(eng, st, container, item)
        if r is not None:
            return [(st, r)]
    if S.is_strlike(container):
        if S.is_strlike(item):
            return [(st, z3.Contains(S.to_str_term(container), S.to_str_term(item)))]
        return [(st, exc("TypeError", "'in <string>' requires string as left operand", origin))]
    if isinstance(container, (VTuple, VList)) or (isinstance(container, VC) and isinstance(container.py, (tuple, list))):
        items = iter_items(eng, st, container)
        if items is None:
            return st.store[container.oid]["__sym__"].contains(eng, st, item, origin)
        parts = []
        for x in items:
            r = S.eq(eng, st, x, item)
            if r is True:
                return [(st, True)]
            if r is not False:
                parts.append(r)
        return [(st, z3.Or(*parts) if parts else False)]
    if isinstance(container, (VDict, VSet)):
        c = st.store[container.oid]
        if "__sym__" in c:
            return c["__sym__"].contains(eng, st, item, origin)
        if isinstance(item, VC):
            return [(st, ("c", item.py) in c)]
        parts = []
        for k in c:
            r = S.eq(eng, st, lift(k[1]), item)
            if r is True:
                return [(st, True)]
            if r is not False:
                parts.append(r)
        return [(st, z3.Or(*parts) if parts else False)]
    h = eng.world.get("__contains__")
    if h is not None:
        r = h(eng, st, container, item, origin)
        if r is not None:
            return r
    raise Unsupported(f"{item!r} in {container!r}")


# ------------------------------------------------------------------------------------ methods
def call_method(eng, st, recv, name, args, kwargs, origin, star_kwargs=None):
    if isinstance(recv, (VMod, VObj, VType, VExc, VOpq)):
        outs = []
        for s, f in eng.get_attr(st, recv, name, origin):
            if isinstance(f, Raise):
                outs.append((s, f))
            else:
                outs.extend(eng.call(s, f, args, kwargs, origin, star_kwargs))
        return outs
    if isinstance(recv, VC) and recv.py is None:
        return _one(st, exc("AttributeError", f"'NoneType' object has no attribute '{name}'", origin))
    if type(recv).__name__ == "VAStr":
        from . import astr

        return astr.method(eng, st, recv, name, args, kwargs, origin)
    if S.is_strlike(recv):
        from . import strings

        return strings.str_method(eng, st, recv, name, args, kwargs, origin)
    if isinstance(recv, VBytes) or (isinstance(recv, VC) and isinstance(recv.py, bytes)):
        from . import strings

        return strings.bytes_method(eng, st, recv, name, args, kwargs, origin)
    if isinstance(recv, VList):
        c = st.store[recv.oid]
        if isinstance(c, dict):
            return c["__sym__"].method(eng, st, recv, name, args, kwargs, origin)
        if name == "append":
            c.append(args[0])
            return _one(st, VC(None))
        if name == "pop":
            if not c:
                return _one(st, exc("IndexError", "pop from empty list", origin))
            if args:
                if not isinstance(args[0], VC):
                    raise Unsupported("pop(symbolic)")
                try:
                    return _one(st, c.pop(args[0].py))
                except IndexError:
                    return _one(st, exc("IndexError", "pop index out of range", origin))
            return _one(st, c.pop())
        if name == "insert":
            if not isinstance(args[0], VC):
                raise Unsupported("insert(symbolic)")
            c.insert(args[0].py, args[1])
            return _one(st, VC(None))
        if name == "extend":
            items = iter_items(eng, st, args[0])
            if items is None:
                raise Unsupported("extend(symbolic)")
            c.extend(items)
            return _one(st, VC(None))
        if name == "clear":
            c.clear()
            return _one(st, VC(None))
        if name == "copy":
            return _one(st, st.new_list(c))
    if isinstance(recv, VDict):
        c = st.store[recv.oid]
        if "__sym__" in c:
            return c["__sym__"].method(eng, st, recv, name, args, kwargs, origin)
        if name == "get":
            default = args[1] if len(args) > 1 else VC(None)
            if isinstance(args[0], VC):
                return _one(st, c.get(("c", args[0].py), default))
            # symbolic key against concrete keys: case split
            outs = []
            conds = []
            for k, v in c.items():
                r = S.eq(eng, st, lift(k[1]), args[0])
                if r is False:
                    continue
                s1 = eng.branch(st, r)
                conds.append(r)
                if s1 is not None:
                    outs.append((s1, v))
            s0 = eng.branch(st, z3.Not(z3.Or(*conds)) if conds else True)
            if s0 is not None:
                outs.append((s0, default))
            return outs
        if name == "pop" and args and isinstance(args[0], VC):
            k = ("c", args[0].py)
            if k in c:
                return _one(st, c.pop(k))
            if len(args) > 1:
                return _one(st, args[1])
            return _one(st, exc("KeyError", repr(args[0].py), origin))
        if name == "keys":
            return _one(st, st.new_list([lift(k[1]) for k in c]))
        if name == "values":
            return _one(st, st.new_list(list(c.values())))
        if name == "items":
            return _one(st, st.new_list([VTuple([lift(k[1]), v]) for k, v in c.items()]))
        if name == "update":
            if isinstance(args[0], VDict):
                c.update(st.store[args[0].oid])
                return _one(st, VC(None))
    if isinstance(recv, VSet):
        c = st.store[recv.oid]
        if "__sym__" in c:
            return c["__sym__"].method(eng, st, recv, name, args, kwargs, origin)
        if name == "add":
            c[eng.hashkey(args[0])] = True
            return _one(st, VC(None))
        if name == "copy":
            return _one(st, VSet(st.alloc(dict(c))))
    if isinstance(recv, VFloat) or isinstance(recv, VInt):
        pass
    raise Unsupported(f"method {name} on {recv!r} at {origin}")
