"""Helpers for specification functions: every spec function is ordinary Python (executed natively at
replay and by the bounded checks) and is interpreted symbolically by pyvc from the same source text.
Functions the solvers cannot interpret get a native body plus a symbolic uninterpreted counterpart."""
from __future__ import annotations

import math

import z3

from . import pysem as S
from .values import *


def uninterpreted(symbolic):
    """Decorator: native python body + symbolic handler (eng, st, args, kwargs, origin) -> [(st, V)]."""

    def deco(fn):
        fn.__pyvc_symbolic__ = symbolic
        return fn

    return deco


def _fp_uf(uf):
    def h(eng, st, args, kwargs, origin):
        eng.use("A-libm: CPython's libm and the game runtime agree on " + str(uf))
        return [(st, VFloat(uf(*[S.to_fp(a) for a in args])))]

    return h


def _fmod_sym(eng, st, args, kwargs, origin):
    return [(st, VFloat(S.fmod_term(eng, st, S.to_fp(args[0]), S.to_fp(args[1]))))]


@uninterpreted(_fmod_sym)
def libm_fmod(a, b):
    return math.fmod(a, b)


@uninterpreted(_fp_uf(S.UF_POW))
def libm_pow(a, b):
    try:
        return math.pow(a, b)
    except (ValueError, OverflowError, ZeroDivisionError):
        return float("nan")


def _finite(eng, st, args, kwargs, origin):
    (a,) = args
    if isinstance(a, VC):
        return [(st, VC(isinstance(a.py, (int, float)) and math.isfinite(a.py)))]
    if isinstance(a, VFloat):
        return [(st, S.vbool(z3.Not(z3.Or(z3.fpIsNaN(a.t), z3.fpIsInf(a.t)))))]
    if isinstance(a, (VInt, VBool)):
        return [(st, VC(True))]
    return [(st, VC(False))]


@uninterpreted(_finite)
def finite(a):
    return isinstance(a, (int, float)) and not isinstance(a, complex) and math.isfinite(a)


def _is_integral(eng, st, args, kwargs, origin):
    (a,) = args
    if isinstance(a, VC):
        return [(st, VC(float(a.py).is_integer()))]
    t = S.to_fp(a)
    return [(st, S.vbool(z3.fpEQ(z3.fpRoundToIntegral(RTZ, t), t)))]


@uninterpreted(_is_integral)
def is_integral(a):
    return float(a).is_integer()


def _kind_is_number(eng, st, args, kwargs, origin):
    (a,) = args
    if isinstance(a, VC):
        return [(st, VC(isinstance(a.py, (int, float))))]
    return [(st, VC(isinstance(a, (VInt, VFloat, VBool))))]


@uninterpreted(_kind_is_number)
def is_plain_number(a):
    """int, float or bool (IC10Operand.__init__ is under contract to store bools as 0/1) - not complex, str or None."""
    return isinstance(a, (int, float))


def install_math(world):
    """`math` module as seen by interpreted code (spec functions and is_constant)."""
    m = VMod("math")
    world["module:math"] = m
    world["math.fmod"] = VFun("builtin", fn=libm_fmod.__pyvc_symbolic__, name="math.fmod")
    world["math.pi"] = VC(math.pi)
