"""Value model of the pyvc symbolic executor (DESIGN 3.3)."""
from __future__ import annotations

import z3

F64 = z3.Float64()
RNE = z3.RNE()
RTZ = z3.RTZ()
BV64 = z3.BitVecSort(64)


class Unsupported(Exception):
    """Construct outside the verified subset -> obligation is 'undecided', never a violation."""


class V:
    pass


class VC(V):
    """Concrete immutable Python value (int, bool, float, str, bytes, None, complex, tuple of such)."""

    __slots__ = ("py",)

    def __init__(self, py):
        self.py = py

    def __repr__(self):
        return f"VC({self.py!r})"


class VInt(V):
    """Python int: mathematical Int term `t`, or a two's-complement 64-bit term `bv`
    (only produced by int(float) under a 64-bit domain side obligation)."""

    __slots__ = ("t", "bv", "fp")

    def __init__(self, t=None, bv=None, fp=None):
        self.t = t
        self.bv = bv
        self.fp = fp  # optional: the same integer as an (integral) Float64 term

    def __repr__(self):
        return f"VInt({self.t if self.t is not None else self.bv})"


class VBool(V):
    __slots__ = ("t",)

    def __init__(self, t):
        self.t = t

    def __repr__(self):
        return f"VBool({self.t})"


class VFloat(V):
    __slots__ = ("t",)

    def __init__(self, t):
        self.t = t

    def __repr__(self):
        return f"VFloat({self.t})"


class VComplex(V):
    """A complex number (only its kind matters)."""


class VStr(V):
    __slots__ = ("t",)

    def __init__(self, t):
        self.t = t

    def __repr__(self):
        return f"VStr({self.t})"


class VBytes(V):
    """bytes: modelled as a z3 String of code points < 256 plus tag."""

    __slots__ = ("t",)

    def __init__(self, t):
        self.t = t


class VTuple(V):
    __slots__ = ("items",)

    def __init__(self, items):
        self.items = tuple(items)

    def __repr__(self):
        return f"VTuple{self.items!r}"


class VRefBase(V):
    __slots__ = ("oid",)

    def __init__(self, oid):
        self.oid = oid

    def __repr__(self):
        return f"{type(self).__name__}(#{self.oid})"


class VList(VRefBase):
    pass


class VDict(VRefBase):
    pass


class VSet(VRefBase):
    pass


class VObj(VRefBase):
    """Record with named fields in the store; '__class__' names its class."""


class VOpq(V):
    """Opaque value of an uninterpreted sort; supports ==, is, hashing into UFs."""

    __slots__ = ("tag", "t")

    def __init__(self, tag, t):
        self.tag = tag
        self.t = t

    def __repr__(self):
        return f"VOpq({self.tag}:{self.t})"


class VFun(V):
    """kind: 'lambda' | 'def' | 'builtin' | 'contract' | 'bound'"""

    def __init__(*args, **kw):
        self_, kind = args
        self_.kind = kind
        self_.__dict__.update(kw)

    def __repr__(self):
        return f"VFun({self.kind}, {getattr(self, 'name', '')})"


class VMod(V):
    def __init__(self, name, attrs=None):
        self.name = name
        self.attrs = attrs or {}

    def __repr__(self):
        return f"VMod({self.name})"


class VType(V):
    def __init__(self, name, bases=()):
        self.name = name
        self.bases = tuple(bases)

    def __repr__(self):
        return f"VType({self.name})"


class VExc(V):
    """Exception instance.  cls: most specific statically known class name.
    `maybe`: dict class-name -> z3 Bool, for exceptions raised by opaque callees whose
    dynamic class is only known to be a subclass of `cls`."""

    def __init__(self, cls, args=(), maybe=None, origin=""):
        self.cls = cls
        self.args = tuple(args)
        self.maybe = maybe if maybe is not None else {}
        self.origin = origin
        self.attrs = {}

    def __repr__(self):
        return f"VExc({self.cls} @ {self.origin})"


EXC_PARENT = {
    "BaseException": None,
    "Exception": "BaseException",
    "ArithmeticError": "Exception",
    "ZeroDivisionError": "ArithmeticError",
    "OverflowError": "ArithmeticError",
    "LookupError": "Exception",
    "KeyError": "LookupError",
    "IndexError": "LookupError",
    "ValueError": "Exception",
    "UnicodeError": "ValueError",
    "UnicodeDecodeError": "UnicodeError",
    "UnicodeEncodeError": "UnicodeError",
    "json.JSONDecodeError": "ValueError",
    "binascii.Error": "ValueError",
    "TypeError": "Exception",
    "AttributeError": "Exception",
    "RuntimeError": "Exception",
    "NotImplementedError": "RuntimeError",
    "RecursionError": "RuntimeError",
    "OSError": "Exception",
    "ImportError": "Exception",
    "CompilerError": "Exception",
    "astroid.AstroidSyntaxError": "Exception",
    "subprocess.SubprocessError": "Exception",
    "subprocess.TimeoutExpired": "subprocess.SubprocessError",
    "zlib.error": "Exception",
    "AssertionError": "Exception",
    "StopIteration": "Exception",
}


def exc_is_subclass(cls, base):
    while cls is not None:
        if cls == base:
            return True
        cls = EXC_PARENT.get(cls)
    return False
