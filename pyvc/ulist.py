"""Lists of symbolic length for unbounded (track U) proofs: a list is (length Int, one z3 Array per tuple component).
Elements are ints or fixed-arity tuples of ints.  Mutation replaces the store entry (states are forked by shallow copy).

Also: references to the i-th element of an immutable symbolic sequence of records whose fields are uninterpreted
functions of the index (immutable fields) or heap arrays kept in the state (mutable fields)."""
from __future__ import annotations

import z3

from . import pysem as S
from .pysem import exc
from .state import fresh
from .values import *

INT = z3.IntSort()
ARR = z3.ArraySort(INT, INT)


class SymSeq:
    def __init__(self, n, cols, arity):
        self.n, self.cols, self.arity = n, list(cols), arity  # arity 0: scalar elements

    @staticmethod
    def empty(arity):
        return SymSeq(z3.IntVal(0), [z3.K(INT, z3.IntVal(0)) for _ in range(max(arity, 1))], arity)

    @staticmethod
    def fresh(st, prefix, arity):
        n = fresh(prefix + "_len", INT)
        st.assume(n >= 0)
        return SymSeq(n, [fresh(f"{prefix}_c{i}", ARR) for i in range(max(arity, 1))], arity)

    # --- protocol used by builtins_model
    def nonempty(self, st):
        return self.n > 0

    def length(self, st):
        return VInt(self.n)

    def at(self, st, j):
        if self.arity == 0:
            return VInt(self.cols[0][j])
        return VTuple([VInt(c[j]) for c in self.cols])

    def get(self, eng, st, idx, origin):
        i = S.to_int_term(idx)
        outs = []
        for sign, j in ((i >= 0, i), (i < 0, i + self.n)):
            sb = eng.branch(st, sign)
            if sb is None:
                continue
            ok = z3.And(j >= 0, j < self.n)
            s1 = eng.branch(sb, ok)
            if s1 is not None:
                outs.append((s1, self.at(s1, j)))
            s0 = eng.branch(sb, z3.Not(ok))
            if s0 is not None:
                outs.append((s0, exc("IndexError", "list index out of range", origin)))
        return outs

    def contains(self, eng, st, item, origin):
        raise Unsupported("membership in a symbolic-length list")

    def set(self, eng, st, idx, v, origin):
        raise Unsupported("item store into a symbolic-length list")

    def _vals(self, v):
        if self.arity == 0:
            return [S.to_int_term(v)]
        if not isinstance(v, VTuple) or len(v.items) != self.arity:
            raise Unsupported(f"appending {v!r} to a list of {self.arity}-tuples")
        return [S.to_int_term(x) for x in v.items]

    def method(self, eng, st, recv, name, args, kwargs, origin):
        if name == "append":
            vals = self._vals(args[0])
            new = SymSeq(self.n + 1, [z3.Store(c, self.n, x) for c, x in zip(self.cols, vals)], self.arity)
            st.store[recv.oid]["__sym__"] = new
            return [(st, VC(None))]
        if name == "pop" and not args:
            outs = []
            s0 = eng.branch(st, self.n <= 0)
            if s0 is not None:
                outs.append((s0, exc("IndexError", "pop from empty list", origin)))
            s1 = eng.branch(st, self.n > 0)
            if s1 is not None:
                v = self.at(s1, self.n - 1)
                s1.store[recv.oid]["__sym__"] = SymSeq(self.n - 1, self.cols, self.arity)
                outs.append((s1, v))
            return outs
        raise Unsupported(f"method {name} on a symbolic-length list at {origin}")


def new_list(st, seq):
    return VList(st.alloc({"__sym__": seq}))


def seq_of(st, v):
    c = st.store[v.oid]
    return c.get("__sym__") if isinstance(c, dict) else None


# ----------------------------------------------------------------------------------------- record references
class RecordSeq:
    """immutable sequence of records, symbolic length; immutable fields are UFs of the index, mutable ones heap arrays in st.ghost"""

    def __init__(self, name, n, fields, heap_fields, sub=None):
        self.name, self.n = name, n
        self.fields = fields  # field -> z3 Function(Int -> Int)
        self.heap_fields = set(heap_fields)
        self.sub = sub or {}  # attribute -> (tag, {field: UF}) nested record view (e.g. .lifetime.start)
        self.arity = -1

    def nonempty(self, st):
        return self.n > 0

    def length(self, st):
        return VInt(self.n)

    def at(self, st, j):
        return VOpq("rec:" + self.name, j)

    def get(self, eng, st, idx, origin):
        i = S.to_int_term(idx)
        outs = []
        ok = z3.And(i >= 0, i < self.n)
        s1 = eng.branch(st, ok)
        if s1 is not None:
            outs.append((s1, self.at(s1, i)))
        s0 = eng.branch(st, z3.Not(ok))
        if s0 is not None:
            outs.append((s0, exc("IndexError", "list index out of range", origin)))
        return outs

    def method(self, eng, st, recv, name, args, kwargs, origin):
        raise Unsupported(f"method {name} on the record sequence")

    def contains(self, eng, st, item, origin):
        raise Unsupported("membership in the record sequence")


def install_records(world, rs: RecordSeq):
    """attribute protocol for references into `rs`"""

    def getattr_rec(eng, st, obj, name, origin):
        if name in rs.heap_fields:
            return [(st, VInt(st.ghost["heap:" + name][obj.t]))]
        if name in rs.fields:
            return [(st, VInt(rs.fields[name](obj.t)))]
        if name in rs.sub:
            return [(st, VOpq("sub:" + rs.name + ":" + name, obj.t))]
        return [(st, exc("AttributeError", name, origin))]

    def setattr_rec(eng, st, obj, name, v, origin):
        from .state import Outcome

        if isinstance(obj, VOpq) and obj.tag == "rec:" + rs.name and name in rs.heap_fields:
            st.ghost["heap:" + name] = z3.Store(st.ghost["heap:" + name], obj.t, S.to_int_term(v))
            return [Outcome("normal", st)]
        raise Unsupported(f"attribute store {name} on {obj!r}")

    world["__opqattr__:rec:" + rs.name] = getattr_rec
    world["__setattr_opq__"] = setattr_rec
    for attr, fields in rs.sub.items():
        def getattr_sub(eng, st, obj, name, origin, _f=fields):
            if name in _f:
                return [(st, VInt(_f[name](obj.t)))]
            return [(st, exc("AttributeError", name, origin))]

        world["__opqattr__:sub:" + rs.name + ":" + attr] = getattr_sub


# ----------------------------------------------------------------------------------------- symbolic maps / sets
STRS = z3.StringSort()


class SymStrMap:
    """dict from strings to strings with symbolic content: a domain array and a value array"""

    def __init__(self, dom, val):
        self.dom, self.val = dom, val

    @staticmethod
    def fresh(st, prefix):
        return SymStrMap(fresh(prefix + "_dom", z3.ArraySort(STRS, z3.BoolSort())), fresh(prefix + "_val", z3.ArraySort(STRS, STRS)))

    def contains(self, eng, st, item, origin):
        return [(st, z3.Select(self.dom, S.to_str_term(item)))]

    def get(self, eng, st, idx, origin):
        k = S.to_str_term(idx)
        outs = []
        s1 = eng.branch(st, z3.Select(self.dom, k))
        if s1 is not None:
            outs.append((s1, VStr(z3.Select(self.val, k))))
        s0 = eng.branch(st, z3.Not(z3.Select(self.dom, k)))
        if s0 is not None:
            outs.append((s0, exc("KeyError", "key", origin)))
        return outs

    def set(self, eng, st, idx, v, origin):
        from .state import Outcome

        k = S.to_str_term(idx)
        for oid, c in st.store.items():
            if isinstance(c, dict) and c.get("__sym__") is self:
                st.store[oid] = dict(c, __sym__=SymStrMap(z3.Store(self.dom, k, z3.BoolVal(True)), z3.Store(self.val, k, S.to_str_term(v))))
                return [Outcome("normal", st)]
        raise Unsupported("symbolic map not found in the store")

    def method(self, eng, st, recv, name, args, kwargs, origin):
        raise Unsupported(f"method {name} on a symbolic map")

    def length(self, st):
        raise Unsupported("len() of a symbolic map")


class SymIntSet:
    """set of integers with symbolic content (membership array)"""

    def __init__(self, mem):
        self.mem = mem

    @staticmethod
    def fresh(st, prefix):
        return SymIntSet(fresh(prefix + "_mem", z3.ArraySort(INT, z3.BoolSort())))

    def contains(self, eng, st, item, origin):
        return [(st, z3.Select(self.mem, S.to_int_term(item)))]

    def method(self, eng, st, recv, name, args, kwargs, origin):
        if name == "add":
            st.store[recv.oid] = dict(st.store[recv.oid], __sym__=SymIntSet(z3.Store(self.mem, S.to_int_term(args[0]), z3.BoolVal(True))))
            return [(st, VC(None))]
        raise Unsupported(f"method {name} on a symbolic set")

    def length(self, st):
        raise Unsupported("len() of a symbolic set")
