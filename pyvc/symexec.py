"""pyvc symbolic executor: path-sensitive execution of a Python subset over z3 terms.

Loop-free code is executed over full-domain symbolic inputs (a complete case analysis);
loops over concrete-length iterables are unrolled completely; other loops need an
invariant from the sidecar (see loops.py) or are rejected with Unsupported.
"""
from __future__ import annotations

import ast

import z3

from . import pysem as S
from .pysem import exc, lift, truth, vbool
from .state import Outcome, Raise, State, fresh
from .values import *

MAX_DEPTH = 12


class _LoopEnd(Raise):
    """Path that ended at the back edge of an invariant-checked loop (its obligations are complete)."""

    def __init__(self):
        self.exc = VExc("<loop-end>")


LOOP_END = _LoopEnd()


class Engine:
    def __init__(self, world=None, classes=None, feas_timeout_ms=2000):
        self.world = dict(world or {})
        self.classes = dict(classes or {})  # class name -> ClassInfo
        self.solver = z3.Solver()
        self.solver.set("timeout", feas_timeout_ms)
        self.solver.set("smt.mbqi", False)  # feasibility pruning only needs 'unsat'; never search models of quantified axioms
        self.axioms = []  # global axioms (UF properties) added to every query
        self.assumptions_used = set()  # names of external contracts used
        self.loop_specs = {}
        self.depth = 0
        self.paths = 0
        self.feas_checks = 0
        self.func_stack = []
        self.spec_ns = []
        self._spec_cache = {}
        from . import builtins_model

        builtins_model.install(self)

    # ------------------------------------------------------------------ utilities
    def use(self, name):
        self.assumptions_used.add(name)

    def axiom(self, f):
        self.axioms.append(f)

    def branch(self, st, cond, check=True):
        if isinstance(cond, bool):
            return st.fork() if cond else None
        cond = z3.simplify(cond)
        if z3.is_true(cond):
            return st.fork()
        if z3.is_false(cond):
            return None
        if check:
            self.feas_checks += 1
            r = self.solver.check(*(self.axioms + st.pc + [cond]))
            if r == z3.unsat:
                return None
        s2 = st.fork()
        s2.pc.append(cond)
        return s2

    def fork_truth(self, st, v):
        """-> [(state, python bool)] for the truthiness of v."""
        t = truth(st, v)
        if isinstance(t, bool):
            return [(st, t)]
        outs = []
        s1 = self.branch(st, t)
        if s1 is not None:
            outs.append((s1, True))
        s0 = self.branch(st, z3.Not(t))
        if s0 is not None:
            outs.append((s0, False))
        return outs

    def origin(self, node):
        fn = self.func_stack[-1] if self.func_stack else "?"
        return f"{fn}:{getattr(node, 'lineno', '?')}"

    # ------------------------------------------------------------------ names
    def lookup(self, st, name, node=None):
        for fr in (st.frames[-1],):
            if name in fr:
                return fr[name]
        if name in st.frames[-1].get("__closure__", {}):
            return st.frames[-1]["__closure__"][name]
        if name in st.globals:
            return st.globals[name]
        if name in self.world:
            return self.world[name]
        for ns in self.spec_ns:
            if name in ns:
                v = self.from_python(ns[name])
                if v is not None:
                    return v
        raise Unsupported(f"unknown name {name!r} at {self.origin(node)}")

    def from_python(self, obj):
        """Map a native Python object of a spec namespace into the symbolic world."""
        import types as _t

        if isinstance(obj, (bool, int, float, str, bytes, type(None))):
            return VC(obj)
        if isinstance(obj, tuple) and all(isinstance(x, (bool, int, float, str, type(None))) for x in obj):
            return VC(obj)
        uf = getattr(obj, "__pyvc_symbolic__", None)
        if uf is not None:
            return VFun("builtin", fn=uf, name=getattr(obj, "__name__", "uf"))
        if isinstance(obj, _t.FunctionType):
            return self.spec_fun(obj)
        if isinstance(obj, _t.ModuleType):
            key = "module:" + obj.__name__
            if key in self.world:
                return self.world[key]
            m = VMod(obj.__name__)
            m.pymod = obj
            return m
        return None

    def spec_fun(self, fn):
        import inspect, textwrap

        key = id(fn)
        if key in self._spec_cache:
            return self._spec_cache[key]
        uf = getattr(fn, "__pyvc_symbolic__", None)
        if uf is not None:
            v = VFun("builtin", fn=uf, name=fn.__name__)
        else:
            src = textwrap.dedent(inspect.getsource(fn))
            node = ast.parse(src).body[0]
            v = VFun("def", node=node, closure={}, name="spec:" + fn.__name__)
            if fn.__globals__ not in self.spec_ns:
                self.spec_ns.append(fn.__globals__)
        self._spec_cache[key] = v
        return v

    def assign_name(self, st, name, v):
        fr = st.frames[-1]
        if name in fr.get("__globals_decl__", ()):
            st.globals[name] = v
        else:
            fr[name] = v

    # ------------------------------------------------------------------ expressions
    def ev(self, node, st):
        m = getattr(self, "ev_" + type(node).__name__, None)
        if m is None:
            raise Unsupported(f"expression {type(node).__name__} at {self.origin(node)}")
        return m(node, st)

    def ev_seq(self, nodes, st):
        """Evaluate expressions left to right -> [(st, [values]) | (st, Raise)]"""
        acc = [(st, [])]
        for n in nodes:
            nxt = []
            for s, vals in acc:
                if isinstance(vals, Raise):
                    nxt.append((s, vals))
                    continue
                for s2, v in self.ev(n, s):
                    if isinstance(v, Raise):
                        nxt.append((s2, v))
                    else:
                        nxt.append((s2, vals + [v]))
            acc = nxt
        return acc

    def ev_Constant(self, node, st):
        return [(st, VC(node.value))]

    def ev_Name(self, node, st):
        return [(st, self.lookup(st, node.id, node))]

    def ev_Tuple(self, node, st):
        return [(s, v if isinstance(v, Raise) else VTuple(v)) for s, v in self.ev_seq(node.elts, st)]

    def ev_List(self, node, st):
        return [(s, v if isinstance(v, Raise) else s.new_list(v)) for s, v in self.ev_seq(node.elts, st)]

    def ev_Set(self, node, st):
        outs = []
        for s, v in self.ev_seq(node.elts, st):
            if isinstance(v, Raise):
                outs.append((s, v))
            else:
                outs.append((s, s.new_set([self.hashkey(x) for x in v])))
        return outs

    def hashkey(self, v):
        if isinstance(v, VC):
            return ("c", v.py)
        raise Unsupported(f"symbolic container key {v!r}")

    def ev_Dict(self, node, st):
        outs = []
        for s, vals in self.ev_seq([k for k in node.keys] + list(node.values), st):
            if isinstance(vals, Raise):
                outs.append((s, vals))
                continue
            n = len(node.keys)
            d = {}
            for k, v in zip(vals[:n], vals[n:]):
                d[self.hashkey(k)] = v
            outs.append((s, s.new_dict(d)))
        return outs

    def ev_Lambda(self, node, st):
        clo = dict(st.frames[-1].get("__closure__", {}))
        clo.update({k: v for k, v in st.frames[-1].items() if not k.startswith("__")})
        return [(st, VFun("lambda", node=node, closure=clo, name=f"<lambda@{node.lineno}>"))]

    def ev_JoinedStr(self, node, st):
        acc = [(st, [])]
        for part in node.values:
            nxt = []
            for s, vals in acc:
                if isinstance(vals, Raise):
                    nxt.append((s, vals))
                    continue
                if isinstance(part, ast.Constant):
                    nxt.append((s, vals + [VC(part.value)]))
                    continue
                # FormattedValue
                for s2, v in self.ev(part.value, s):
                    if isinstance(v, Raise):
                        nxt.append((s2, v))
                        continue
                    spec = None
                    if part.format_spec is not None:
                        sp = self.ev(part.format_spec, s2)
                        if len(sp) != 1 or not isinstance(sp[0][1], VC):
                            raise Unsupported("symbolic format spec")
                        spec = sp[0][1].py
                    for s3, r in self.format_value(s2, v, spec, part.conversion, self.origin(node)):
                        nxt.append((s3, r if isinstance(r, Raise) else vals + [r]))
            acc = nxt
        outs = []
        for s, vals in acc:
            if isinstance(vals, Raise):
                outs.append((s, vals))
            elif all(isinstance(v, VC) for v in vals):
                outs.append((s, VC("".join(v.py for v in vals))))
            elif any(type(v).__name__ == "VAStr" for v in vals):
                from . import astr

                acc = None
                for v in vals:
                    if isinstance(v, VC) and v.py == "":
                        continue
                    a = astr.as_astr(v)
                    acc = a if acc is None else astr.concat(self, s, acc, a)
                outs.append((s, acc if acc is not None else VC("")))
            else:
                outs.append((s, VStr(z3.Concat(*[S.to_str_term(v) for v in vals])) if len(vals) > 1 else vals[0]))
        return outs

    def format_value(self, st, v, spec, conversion, origin):
        if conversion not in (-1, None):
            raise Unsupported("format conversion")
        if isinstance(v, VC):
            try:
                return [(st, VC(format(v.py, spec or "")))]
            except Exception as e:
                return [(st, exc(type(e).__name__, str(e), origin))]
        if not spec:
            return S.py_str(self, st, v, origin)
        h = self.world.get("__format__")
        if h is not None:
            r = h(self, st, v, spec, origin)
            if r is not None:
                return r
        import re as _re

        if isinstance(v, (VFloat, VInt, VBool)) and _re.fullmatch(r"[<>^]?\d*(\.\d+)?[fgedXx]?", spec):
            # numeric formatting never raises; the text itself is not characterised here
            return [(st, VStr(fresh("fmt", z3.StringSort())))]
        raise Unsupported(f"format spec {spec!r} on {v!r}")

    def ev_BoolOp(self, node, st):
        is_and = isinstance(node.op, ast.And)
        outs = []
        work = [(st, 0, None)]
        while work:
            s, i, last = work.pop()
            for s2, v in self.ev(node.values[i], s):
                if isinstance(v, Raise):
                    outs.append((s2, v))
                    continue
                if i == len(node.values) - 1:
                    outs.append((s2, v))
                    continue
                for s3, t in self.fork_truth(s2, v):
                    if t == is_and:
                        work.append((s3, i + 1, v))
                    else:
                        outs.append((s3, v))
        return outs

    def ev_IfExp(self, node, st):
        outs = []
        for s, c in self.ev(node.test, st):
            if isinstance(c, Raise):
                outs.append((s, c))
                continue
            for s2, t in self.fork_truth(s, c):
                outs.extend(self.ev(node.body if t else node.orelse, s2))
        return outs

    def ev_UnaryOp(self, node, st):
        op = {ast.USub: "-", ast.UAdd: "+", ast.Invert: "~", ast.Not: "not"}[type(node.op)]
        outs = []
        for s, v in self.ev(node.operand, st):
            if isinstance(v, Raise):
                outs.append((s, v))
            else:
                outs.extend(S.unop(self, s, op, v, self.origin(node)))
        return outs

    BINOPS = {
        ast.Add: "+", ast.Sub: "-", ast.Mult: "*", ast.Div: "/", ast.FloorDiv: "//", ast.Mod: "%", ast.Pow: "**",
        ast.BitAnd: "&", ast.BitOr: "|", ast.BitXor: "^", ast.LShift: "<<", ast.RShift: ">>",
    }

    def ev_BinOp(self, node, st):
        op = self.BINOPS[type(node.op)]
        outs = []
        for s, vals in self.ev_seq([node.left, node.right], st):
            if isinstance(vals, Raise):
                outs.append((s, vals))
            else:
                outs.extend(self.binop(s, op, vals[0], vals[1], self.origin(node)))
        return outs

    def binop(self, st, op, a, b, origin):
        if op == "%" and S.is_strlike(a):
            raise Unsupported("printf-style formatting")
        if op == "|" and isinstance(a, VSet):
            raise Unsupported("set union operator")
        return S.binop(self, st, op, a, b, origin)

    CMPOPS = {
        ast.Eq: "==", ast.NotEq: "!=", ast.Lt: "<", ast.LtE: "<=", ast.Gt: ">", ast.GtE: ">=",
        ast.Is: "is", ast.IsNot: "is not", ast.In: "in", ast.NotIn: "not in",
    }

    def ev_Compare(self, node, st):
        outs = []
        # chained comparison: a op1 b op2 c  ==  (a op1 b) and (b op2 c), b evaluated once
        work = [(st, 0, None)]
        first = self.ev(node.left, st)
        work = []
        for s, v in first:
            if isinstance(v, Raise):
                outs.append((s, v))
            else:
                work.append((s, 0, v))
        while work:
            s, i, left = work.pop()
            for s2, right in self.ev(node.comparators[i], s):
                if isinstance(right, Raise):
                    outs.append((s2, right))
                    continue
                op = self.CMPOPS[type(node.ops[i])]
                for s3, r in S.compare(self, s2, op, left, right, self.origin(node)):
                    if isinstance(r, Raise) or i == len(node.ops) - 1:
                        outs.append((s3, r))
                        continue
                    for s4, t in self.fork_truth(s3, r):
                        if t:
                            work.append((s4, i + 1, right))
                        else:
                            outs.append((s4, r))
        return outs

    def ev_Attribute(self, node, st):
        outs = []
        for s, v in self.ev(node.value, st):
            if isinstance(v, Raise):
                outs.append((s, v))
            else:
                outs.extend(self.get_attr(s, v, node.attr, self.origin(node)))
        return outs

    def ev_Subscript(self, node, st):
        outs = []
        if isinstance(node.slice, ast.Slice):
            parts = [node.value] + [p if p is not None else ast.Constant(value=None) for p in (node.slice.lower, node.slice.upper, node.slice.step)]
            for s, vals in self.ev_seq(parts, st):
                if isinstance(vals, Raise):
                    outs.append((s, vals))
                else:
                    outs.extend(self.get_slice(s, vals[0], vals[1], vals[2], vals[3], self.origin(node)))
            return outs
        for s, vals in self.ev_seq([node.value, node.slice], st):
            if isinstance(vals, Raise):
                outs.append((s, vals))
            else:
                outs.extend(self.get_item(s, vals[0], vals[1], self.origin(node)))
        return outs

    def ev_Call(self, node, st):
        outs = []
        if (isinstance(node.func, ast.Name) and node.func.id in ("all", "any") and len(node.args) == 1 and not node.keywords
                and isinstance(node.args[0], (ast.GeneratorExp, ast.ListComp)) and node.func.id not in st.env):
            return self.ev_quantified(node.func.id == "all", node.args[0], st)
        # method call on an object: evaluate receiver once
        if any(isinstance(a, ast.Starred) for a in node.args):
            raise Unsupported("*args call")
        kwnames = [k.arg for k in node.keywords]
        star_kw = [k for k in node.keywords if k.arg is None]
        if isinstance(node.func, ast.Attribute):
            for s, recv in self.ev(node.func.value, st):
                if isinstance(recv, Raise):
                    outs.append((s, recv))
                    continue
                for s2, vals in self.ev_seq(list(node.args) + [k.value for k in node.keywords], s):
                    if isinstance(vals, Raise):
                        outs.append((s2, vals))
                        continue
                    args = vals[: len(node.args)]
                    kwargs, extra = self._kwargs(s2, kwnames, vals[len(node.args):])
                    outs.extend(self.call_method(s2, recv, node.func.attr, args, kwargs, self.origin(node), extra))
            return outs
        for s, vals in self.ev_seq([node.func] + list(node.args) + [k.value for k in node.keywords], st):
            if isinstance(vals, Raise):
                outs.append((s, vals))
                continue
            f = vals[0]
            args = vals[1 : 1 + len(node.args)]
            kwargs, extra = self._kwargs(s, kwnames, vals[1 + len(node.args):])
            outs.extend(self.call(s, f, args, kwargs, self.origin(node), extra))
        return outs

    def _comprehension(self, node, st, build):
        """list / dict comprehension with one for-clause over a concrete-length iterable (or an opaque one through
        the world's __comprehension__ hook); comprehension variables do not leak"""
        from .builtins_model import iter_items

        if len(node.generators) != 1 or node.generators[0].is_async:
            raise Unsupported("comprehension with several for-clauses")
        g = node.generators[0]
        outs = []
        for s, it in self.ev(g.iter, st):
            if isinstance(it, Raise):
                outs.append((s, it))
                continue
            if isinstance(it, VOpq):
                h = self.world.get("__comprehension__")
                if h is None:
                    raise Unsupported(f"comprehension over {it!r}")
                # the element expressions are evaluated for an arbitrary element: what they may raise, the comprehension may raise
                outs.extend(h(self, s, it, node, self.origin(node)))
                continue
            items = iter_items(self, s, it)
            if items is None:
                raise Unsupported("comprehension over an iterable of symbolic length")
            saved = dict(s.frames[-1])
            work = [(s, [])]
            for x in items:
                nxt = []
                for s1, acc in work:
                    if isinstance(acc, Raise):
                        nxt.append((s1, acc))
                        continue
                    for o in self.assign(s1, g.target, x):
                        if o.kind != "normal":
                            nxt.append((o.st, Raise(o.val)))
                            continue
                        conds = [(o.st, True)]
                        for cnd in g.ifs:
                            c2 = []
                            for s2, keep in conds:
                                for s3, c in self.ev(cnd, s2):
                                    if isinstance(c, Raise):
                                        nxt.append((s3, c))
                                        continue
                                    for s4, t in self.fork_truth(s3, c):
                                        c2.append((s4, keep and t))
                            conds = c2
                        for s2, keep in conds:
                            if not keep:
                                nxt.append((s2, acc))
                                continue
                            for s3, vals in self.ev_seq(build, s2):
                                nxt.append((s3, vals if isinstance(vals, Raise) else acc + [vals]))
                work = nxt
            for s1, acc in work:
                for k in list(s1.frames[-1]):
                    if k not in saved:
                        del s1.frames[-1][k]
                outs.append((s1, acc))
        return outs

    def ev_ListComp(self, node, st):
        return [(s, v if isinstance(v, Raise) else s.new_list([x[0] for x in v])) for s, v in self._comprehension(node, st, [node.elt])]

    def ev_DictComp(self, node, st):
        outs = []
        for s, v in self._comprehension(node, st, [node.key, node.value]):
            if isinstance(v, (Raise, V)):
                outs.append((s, v))
            else:
                outs.append((s, s.new_dict({self.hashkey(k): val for k, val in v})))
        return outs

    def ev_quantified(self, is_all, gen, st):
        """all(P(x) for x in it [if C(x)]) / any(...): a conjunction for concrete-length iterables,
        a quantified formula (bound index, explicit array-read triggers) for symbolic ranges / array strings."""
        from . import astr
        from .loops import SymRange
        from .builtins_model import iter_items

        if len(gen.generators) != 1 or gen.generators[0].is_async:
            raise Unsupported("comprehension with several for-clauses")
        g = gen.generators[0]
        outs = []
        for s, it in self.ev(g.iter, st):
            if isinstance(it, Raise):
                outs.append((s, it))
                continue

            lifted = []  # facts assumed inside the body (true for every element): hypotheses of the caller

            def body_at(x, s=s, rng=None):
                """-> z3 Bool of (all ifs hold, element predicate holds) at element x"""
                s0 = s.fork()
                if rng is not None:
                    s0.assume(rng)
                base = len(s0.pc)
                s0.frames[-1] = dict(s0.frames[-1])
                conds, terms = [], []
                for o in self.assign(s0, g.target, x):
                    if o.kind != "normal":
                        continue
                    work = [(o.st, [])]
                    for cnd in g.ifs:
                        nxt = []
                        for s1, cs in work:
                            for s2, c in self.ev(cnd, s1):
                                if isinstance(c, Raise):
                                    continue
                                t = truth(s2, c)
                                nxt.append((s2, cs + [z3.BoolVal(t) if isinstance(t, bool) else t]))
                        work = nxt
                    for s1, cs in work:
                        for s2, v in self.ev(gen.elt, s1):
                            delta = []
                            for p in s2.pc[base:]:
                                if p.get_id() in s2.facts:
                                    lifted.append(p)
                                else:
                                    delta.append(p)
                            if isinstance(v, Raise):
                                t = z3.BoolVal(False)
                            else:
                                t = truth(s2, v)
                                t = z3.BoolVal(t) if isinstance(t, bool) else t
                            guard = z3.And(*(delta + cs)) if (delta or cs) else z3.BoolVal(True)
                            terms.append((guard, t))
                if is_all:
                    return z3.And(*[z3.Implies(gd, t) for gd, t in terms]) if terms else z3.BoolVal(True)
                return z3.Or(*[z3.And(gd, t) for gd, t in terms]) if terms else z3.BoolVal(False)

            items = None if isinstance(it, (SymRange, astr.VAStr)) else iter_items(self, s, it)
            if items is not None:
                parts = [body_at(x) for x in items]
                for p in lifted:
                    s.assume(p)
                r = (z3.And(*parts) if is_all else z3.Or(*parts)) if parts else z3.BoolVal(is_all)
                outs.append((s, vbool(r)))
                continue
            i = z3.Const(f"q!{next(astr._ctr)}", z3.IntSort())
            if isinstance(it, SymRange):
                lo, hi, x = it.lo, it.hi, VInt(i)
            elif isinstance(it, astr.VAStr):
                lo, hi, x = z3.IntVal(0), it.n, astr.VChr(it.a[i])
            else:
                raise Unsupported(f"quantification over {it!r}")
            rng = z3.And(i >= lo, i < hi)
            b = body_at(x, rng=rng)
            for p in lifted:
                lp = _select_patterns(p, i, getattr(self, 'uf_patterns', False))
                s.assume(z3.ForAll([i], z3.Implies(rng, p), **({"patterns": lp} if lp else {})))
            pats = _select_patterns(b, i, getattr(self, 'uf_patterns', False))
            kw = {"patterns": pats} if pats else {}
            q = z3.ForAll([i], z3.Implies(rng, b), **kw) if is_all else z3.Exists([i], z3.And(rng, b), **kw)
            outs.append((s, VBool(q)))
        return outs

    def _kwargs(self, st, names, vals):
        kwargs, extra = {}, None
        for n, v in zip(names, vals):
            if n is None:
                extra = v  # **mapping
            else:
                kwargs[n] = v
        return kwargs, extra

    # ------------------------------------------------------------------ calls
    def call(self, st, f, args, kwargs, origin, star_kwargs=None):
        if isinstance(f, VFun):
            if f.kind == "builtin":
                if star_kwargs is not None:
                    kwargs = dict(kwargs)
                    kwargs["__star__"] = star_kwargs
                return f.fn(self, st, args, kwargs, origin)
            if star_kwargs is not None:
                raise Unsupported("**kwargs to interpreted function")
            if f.kind == "bound":
                return self.call(st, f.func, [f.self] + list(args), kwargs, origin)
            if f.kind == "contract":
                return f.contract.apply(self, st, args, kwargs, origin)
            if f.kind in ("lambda", "def"):
                return self.call_ast(st, f, args, kwargs, origin)
        if isinstance(f, VType):
            h = self.world.get("__construct__:" + f.name)
            if h is not None:
                if star_kwargs is not None:
                    kwargs = dict(kwargs)
                    kwargs["__star__"] = star_kwargs
                return h(self, st, args, kwargs, origin)
            if f.name in EXC_PARENT:
                e = VExc(f.name, args, origin=origin)
                return [(st, e)]
            ci = self.classes.get(f.name)
            if ci is not None:
                return self.construct(st, ci, args, kwargs, origin)
        if isinstance(f, VOpq):
            h = self.world.get("__callopq__")
            if h is not None:
                return h(self, st, f, args, kwargs, origin)
        raise Unsupported(f"call of {f!r} at {origin}")

    def bind_args(self, fargs: ast.arguments, args, kwargs, defaults_env, st, origin):
        names = [a.arg for a in fargs.posonlyargs + fargs.args]
        env = {}
        if len(args) > len(names) and fargs.vararg is None:
            return exc("TypeError", "too many positional arguments", origin)
        for n, v in zip(names, args):
            env[n] = v
        if fargs.vararg is not None:
            env[fargs.vararg.arg] = VTuple(args[len(names):])
        for k, v in kwargs.items():
            if k in env:
                return exc("TypeError", f"multiple values for argument {k!r}", origin)
            if k not in names and k not in [a.arg for a in fargs.kwonlyargs]:
                return exc("TypeError", f"unexpected keyword argument {k!r}", origin)
            env[k] = v
        ndef = len(fargs.defaults)
        for i, n in enumerate(names):
            if n not in env:
                j = i - (len(names) - ndef)
                if j < 0:
                    return exc("TypeError", f"missing required argument {n!r}", origin)
                d = fargs.defaults[j]
                r = self.ev(d, st)
                if len(r) != 1 or isinstance(r[0][1], Raise):
                    raise Unsupported("non-trivial default argument")
                env[n] = r[0][1]
        for a, d in zip(fargs.kwonlyargs, fargs.kw_defaults):
            if a.arg not in env:
                if d is None:
                    return exc("TypeError", f"missing keyword-only argument {a.arg!r}", origin)
                env[a.arg] = self.ev(d, st)[0][1]
        return env

    def call_ast(self, st, f, args, kwargs, origin):
        """Inline a lambda or def whose AST is available (spec functions, accessors, lambdas under contract)."""
        if self.depth > MAX_DEPTH:
            raise Unsupported("inlining depth exceeded (recursion?)")
        node = f.node
        env = self.bind_args(node.args, args, kwargs, None, st, origin)
        if isinstance(env, Raise):
            return [(st, env)]
        env["__closure__"] = getattr(f, "closure", {})
        outs = []
        self.depth += 1
        self.func_stack.append(getattr(f, "name", "<fn>"))
        try:
            st = st.fork()
            st.frames.append(env)
            if isinstance(node, ast.Lambda):
                for s, v in self.ev(node.body, st):
                    s.frames.pop()
                    outs.append((s, v))
            else:
                for o in self.exec_block(node.body, st):
                    o.st.frames.pop()
                    if o.kind == "raise":
                        outs.append((o.st, Raise(o.val)))
                    elif o.kind == "return":
                        outs.append((o.st, o.val))
                    elif o.kind == "normal":
                        outs.append((o.st, VC(None)))
                    elif o.kind == "loop-end":
                        outs.append((o.st, LOOP_END))
                    else:
                        raise Unsupported("break/continue outside loop")
        finally:
            self.depth -= 1
            self.func_stack.pop()
        return outs

    # ------------------------------------------------------------------ statements
    def exec_block(self, stmts, st):
        """-> [Outcome]"""
        live = [st]
        done = []
        for stmt in stmts:
            nxt = []
            for s in live:
                for o in self.exec_stmt(stmt, s):
                    if o.kind == "normal":
                        nxt.append(o.st)
                    else:
                        done.append(o)
            live = nxt
            if not live:
                break
        return done + [Outcome("normal", s) for s in live]

    def exec_stmt(self, stmt, st):
        m = getattr(self, "st_" + type(stmt).__name__, None)
        if m is None:
            raise Unsupported(f"statement {type(stmt).__name__} at {self.origin(stmt)}")
        for pred, types, why in getattr(self, "abstract_stmts", ()):
            if pred(stmt):
                return self._havoc_stmt(stmt, st, types, why)
        outs = m(stmt, st)
        hooks = getattr(self, "ghost_hooks", None)
        if hooks and not isinstance(stmt, (ast.For, ast.While, ast.If, ast.Try)):
            src = None
            for prefix, fn, *_w in hooks:
                if src is None:
                    src = ast.unparse(stmt)
                if src.startswith(prefix):
                    self.ghost_hooks_fired = getattr(self, "ghost_hooks_fired", set()) | {prefix}
                    for o in outs:
                        if o.kind == "normal":
                            fn(self, o.st)   # ghost code: may only touch ghost variables / ghost heap fields
        return outs

    def _havoc_stmt(self, stmt, st, types, why):
        """Abstraction of a statement the contract does not look into: every local name it can write gets an arbitrary value
        of the declared type (a sound over-approximation of its normal termination; the assumption is recorded)."""
        from . import loops

        self.use(f"abstracted statement at line {getattr(stmt, 'lineno', '?')}: {why} (assumed to terminate normally and to write local names only)")
        if isinstance(stmt, ast.If):
            # the test is evaluated as usual; each branch is abstracted on its own (an untaken branch writes nothing)
            outs = []
            for s1, c in self.ev(stmt.test, st):
                if isinstance(c, Raise):
                    outs.append(Outcome("raise", s1, c.exc))
                    continue
                for s2, taken in self.fork_truth(s1, c):
                    blk = stmt.body if taken else stmt.orelse
                    if not blk:
                        outs.append(Outcome("normal", s2))
                    else:
                        outs.extend(self._havoc_stmt(ast.Module(body=list(blk), type_ignores=[]), s2, types, why))
            return outs
        names = loops.assigned_names(stmt.body if isinstance(stmt, ast.Module) else [stmt]) + loops.mutated_lists(stmt.body if isinstance(stmt, ast.Module) else [stmt])
        for node in ast.walk(stmt):
            if isinstance(node, (ast.Subscript, ast.Attribute)) and isinstance(node.ctx, ast.Store):
                base = node.value
                while isinstance(base, (ast.Subscript, ast.Attribute)):
                    base = base.value
                if not isinstance(base, ast.Name):
                    raise Unsupported("abstracted statement stores through a non-name")
                names.append(base.id)
            if isinstance(node, (ast.Return, ast.Raise, ast.Global, ast.Nonlocal, ast.Yield, ast.Await)):
                raise Unsupported(f"abstracted statement contains {type(node).__name__}")
        s2 = st.fork()
        for n in dict.fromkeys(names):
            kind = types.get(n)
            if kind is None:
                raise Unsupported(f"abstracted statement writes {n!r}, for which the contract declares no type")
            if kind == "str":
                v = VStr(fresh("h_" + n, z3.StringSort()))
            elif kind == "int":
                v = VInt(fresh("h_" + n, z3.IntSort()))
            elif kind == "bool":
                v = VBool(fresh("h_" + n, z3.BoolSort()))
            else:
                v = VOpq("havoc:" + n, fresh("h_" + n, z3.IntSort()))
            self.assign_name(s2, n, v)
        return [Outcome("normal", s2)]

    def st_Pass(self, stmt, st):
        return [Outcome("normal", st)]

    def st_Import(self, stmt, st):
        for a in stmt.names:
            name = a.asname or a.name.split(".")[0]
            key = "module:" + (a.name if a.asname else a.name.split(".")[0])
            if key not in self.world:
                raise Unsupported(f"import of unmodelled module {a.name}")
            st.env[name] = self.world[key]
        return [Outcome("normal", st)]

    def st_ImportFrom(self, stmt, st):
        for a in stmt.names:
            key = f"from:{'.' * stmt.level}{stmt.module or ''}:{a.name}"
            if key in self.world:
                st.env[a.asname or a.name] = self.world[key]
            elif a.name in self.world:
                st.env[a.asname or a.name] = self.world[a.name]
            else:
                raise Unsupported(f"from-import of unmodelled name {key}")
        return [Outcome("normal", st)]

    def st_Global(self, stmt, st):
        st.env.setdefault("__globals_decl__", set())
        st.env["__globals_decl__"] = set(st.env["__globals_decl__"]) | set(stmt.names)
        return [Outcome("normal", st)]

    def st_Expr(self, stmt, st):
        if isinstance(stmt.value, ast.Constant):
            return [Outcome("normal", st)]  # docstring
        outs = []
        for s, v in self.ev(stmt.value, st):
            outs.append(Outcome("raise", s, v.exc) if isinstance(v, Raise) else Outcome("normal", s))
        return outs

    def st_Return(self, stmt, st):
        if stmt.value is None:
            return [Outcome("return", st, VC(None))]
        return [Outcome("raise", s, v.exc) if isinstance(v, Raise) else Outcome("return", s, v) for s, v in self.ev(stmt.value, st)]

    def st_Raise(self, stmt, st):
        if stmt.exc is None:
            cur = st.env.get("__current_exc__")
            if cur is None:
                raise Unsupported("bare raise outside handler")
            return [Outcome("raise", st, cur)]
        outs = []
        for s, v in self.ev(stmt.exc, st):
            if isinstance(v, Raise):
                outs.append(Outcome("raise", s, v.exc))
            elif isinstance(v, VExc):
                outs.append(Outcome("raise", s, v))
            elif isinstance(v, VType) and v.name in EXC_PARENT:
                outs.append(Outcome("raise", s, VExc(v.name, (), origin=self.origin(stmt))))
            else:
                raise Unsupported(f"raise of {v!r}")
        return outs

    def st_Assert(self, stmt, st):
        outs = []
        for s, v in self.ev(stmt.test, st):
            if isinstance(v, Raise):
                outs.append(Outcome("raise", s, v.exc))
                continue
            for s2, t in self.fork_truth(s, v):
                outs.append(Outcome("normal", s2) if t else Outcome("raise", s2, VExc("AssertionError", (), origin=self.origin(stmt))))
        return outs

    def st_Assign(self, stmt, st):
        outs = []
        for s, v in self.ev(stmt.value, st):
            if isinstance(v, Raise):
                outs.append(Outcome("raise", s, v.exc))
                continue
            states = [s]
            for tgt in stmt.targets:
                nxt = []
                for s2 in states:
                    for o in self.assign(s2, tgt, v):
                        if o.kind == "normal":
                            nxt.append(o.st)
                        else:
                            outs.append(o)
                states = nxt
            outs.extend(Outcome("normal", s2) for s2 in states)
        return outs

    def st_AnnAssign(self, stmt, st):
        if stmt.value is None:
            return [Outcome("normal", st)]
        return self.st_Assign(ast.Assign(targets=[stmt.target], value=stmt.value, lineno=stmt.lineno), st)

    def st_AugAssign(self, stmt, st):
        op = self.BINOPS[type(stmt.op)]
        load = ast.copy_location(_as_load(stmt.target), stmt.target)
        outs = []
        for s, vals in self.ev_seq([load, stmt.value], st):
            if isinstance(vals, Raise):
                outs.append(Outcome("raise", s, vals.exc))
                continue
            if op == "+" and isinstance(vals[0], VList):
                raise Unsupported("list +=")
            for s2, r in self.binop(s, op, vals[0], vals[1], self.origin(stmt)):
                if isinstance(r, Raise):
                    outs.append(Outcome("raise", s2, r.exc))
                else:
                    outs.extend(self.assign(s2, stmt.target, r))
        return outs

    def assign(self, st, tgt, v):
        """-> [Outcome] (normal or raise)"""
        if isinstance(tgt, ast.Name):
            self.assign_name(st, tgt.id, v)
            return [Outcome("normal", st)]
        if isinstance(tgt, (ast.Tuple, ast.List)):
            if isinstance(v, VTuple):
                items = list(v.items)
            elif isinstance(v, VList):
                items = list(st.store[v.oid])
            elif isinstance(v, VC) and isinstance(v.py, (tuple, list)):
                items = [lift(x) for x in v.py]
            else:
                raise Unsupported(f"unpacking {v!r}")
            if len(items) != len(tgt.elts):
                return [Outcome("raise", st, VExc("ValueError", (VC("unpack"),), origin=self.origin(tgt)))]
            states = [st]
            outs = []
            for t, x in zip(tgt.elts, items):
                nxt = []
                for s in states:
                    for o in self.assign(s, t, x):
                        (nxt if o.kind == "normal" else outs).append(o.st if o.kind == "normal" else o)
                states = nxt
            return outs + [Outcome("normal", s) for s in states]
        if isinstance(tgt, ast.Attribute):
            outs = []
            for s, obj in self.ev(tgt.value, st):
                if isinstance(obj, Raise):
                    outs.append(Outcome("raise", s, obj.exc))
                else:
                    outs.extend(self.set_attr(s, obj, tgt.attr, v, self.origin(tgt)))
            return outs
        if isinstance(tgt, ast.Subscript):
            outs = []
            for s, vals in self.ev_seq([tgt.value, tgt.slice], st):
                if isinstance(vals, Raise):
                    outs.append(Outcome("raise", s, vals.exc))
                else:
                    outs.extend(self.set_item(s, vals[0], vals[1], v, self.origin(tgt)))
            return outs
        raise Unsupported(f"assignment target {type(tgt).__name__}")

    def st_If(self, stmt, st):
        outs = []
        for s, c in self.ev(stmt.test, st):
            if isinstance(c, Raise):
                outs.append(Outcome("raise", s, c.exc))
                continue
            for s2, t in self.fork_truth(s, c):
                outs.extend(self.exec_block(stmt.body if t else stmt.orelse, s2))
        return outs

    def st_FunctionDef(self, stmt, st):
        clo = dict(st.frames[-1].get("__closure__", {}))
        clo.update({k: v for k, v in st.frames[-1].items() if not k.startswith("__")})
        st.env[stmt.name] = VFun("def", node=stmt, closure=clo, name=stmt.name)
        return [Outcome("normal", st)]

    def st_Try(self, stmt, st):
        outs = []
        after_handlers = []
        for o in self.exec_block(stmt.body, st):
            if o.kind == "raise":
                after_handlers.extend(self.dispatch_handlers(stmt, o.st, o.val))
            elif o.kind == "normal" and stmt.orelse:
                after_handlers.extend(self.exec_block(stmt.orelse, o.st))
            else:
                after_handlers.append(o)
        if not stmt.finalbody:
            return after_handlers
        for o in after_handlers:
            if o.kind == "loop-end":
                outs.append(o)
                continue
            for f in self.exec_block(stmt.finalbody, o.st):
                if f.kind == "normal":
                    outs.append(Outcome(o.kind, f.st, o.val))  # original outcome resumes
                else:
                    outs.append(f)  # finally overrides (return / raise / break inside finally)
        return outs

    def dispatch_handlers(self, stmt, st, e: VExc):
        outs = []
        remaining = [st]
        for h in stmt.handlers:
            if not remaining:
                break
            names = self.handler_classes(h, st)
            nxt = []
            for s in remaining:
                for s2, matches in self.exc_matches(s, e, names):
                    if matches:
                        fr = s2.env
                        if h.name:
                            fr[h.name] = e
                        prev = fr.get("__current_exc__")
                        fr["__current_exc__"] = e
                        for o in self.exec_block(h.body, s2):
                            if prev is None:
                                o.st.env.pop("__current_exc__", None)
                            else:
                                o.st.env["__current_exc__"] = prev
                            outs.append(o)
                    else:
                        nxt.append(s2)
            remaining = nxt
        outs.extend(Outcome("raise", s, e) for s in remaining)
        return outs

    def handler_classes(self, h, st):
        if h.type is None:
            return ["BaseException"]
        r = self.ev(h.type, st)
        if len(r) != 1:
            raise Unsupported("forking handler type")
        v = r[0][1]
        items = v.items if isinstance(v, VTuple) else [v]
        names = []
        for it in items:
            if not isinstance(it, VType):
                raise Unsupported(f"except {it!r}")
            names.append(it.name)
        return names

    def exc_matches(self, st, e: VExc, names):
        """-> [(state, bool)]"""
        if any(exc_is_subclass(e.cls, n) for n in names):
            return [(st, True)]
        # a raised object statically known only as `e.cls` may dynamically be a subclass of it
        poss = [n for n in names if exc_is_subclass(n, e.cls)] if getattr(e, "inexact", False) else []
        if not poss:
            return [(st, False)]
        conds = []
        for n in poss:
            if n not in e.maybe:
                e.maybe[n] = fresh(f"exc_is_{n.replace('.', '_')}", z3.BoolSort())
            conds.append(e.maybe[n])
        c = z3.Or(*conds)
        outs = []
        s1 = self.branch(st, c)
        if s1 is not None:
            outs.append((s1, True))
        s0 = self.branch(st, z3.Not(c))
        if s0 is not None:
            outs.append((s0, False))
        return outs

    def st_For(self, stmt, st):
        from . import loops

        return loops.exec_for(self, stmt, st)

    def st_While(self, stmt, st):
        from . import loops

        return loops.exec_while(self, stmt, st)

    def st_Break(self, stmt, st):
        return [Outcome("break", st)]

    def st_Continue(self, stmt, st):
        return [Outcome("continue", st)]

    def st_With(self, stmt, st):
        raise Unsupported("with statement")

    # ------------------------------------------------------------------ attribute / item protocol (delegated)
    def get_attr(self, st, obj, name, origin):
        from . import builtins_model

        return builtins_model.get_attr(self, st, obj, name, origin)

    def set_attr(self, st, obj, name, v, origin):
        from . import builtins_model

        return builtins_model.set_attr(self, st, obj, name, v, origin)

    def get_item(self, st, obj, idx, origin):
        from . import builtins_model

        return builtins_model.get_item(self, st, obj, idx, origin)

    def set_item(self, st, obj, idx, v, origin):
        from . import builtins_model

        return builtins_model.set_item(self, st, obj, idx, v, origin)

    def get_slice(self, st, obj, lo, hi, step, origin):
        from . import builtins_model

        return builtins_model.get_slice(self, st, obj, lo, hi, step, origin)

    def call_method(self, st, recv, name, args, kwargs, origin, star_kwargs=None):
        from . import builtins_model

        return builtins_model.call_method(self, st, recv, name, args, kwargs, origin, star_kwargs)

    def contains(self, st, container, item, origin):
        from . import builtins_model

        return builtins_model.contains(self, st, container, item, origin)

    def construct(self, st, ci, args, kwargs, origin):
        from . import builtins_model

        return builtins_model.construct(self, st, ci, args, kwargs, origin)

    def str_repeat(self, st, a, b):
        f = z3.Function("py_str_repeat", z3.StringSort(), z3.IntSort(), z3.StringSort())
        self.use("str*int: len(s*k) = len(s)*max(k,0); (1-char s) every char of s*k is s[0]")
        sa, kb = S.to_str_term(a), S.to_int_term(b)
        kb = z3.If(kb > 0, kb, 0)   # canonical count: negative counts give the empty string
        if z3.is_app(sa) and sa.decl().name() == "py_str_repeat":
            # (s * m) * k == s * (m * k): keep one canonical application
            sa, kb = sa.arg(0), sa.arg(1) * kb
            a = VC(sa.as_string()) if z3.is_string_value(sa) else VStr(sa)
        r = f(sa, kb)
        st.assume(z3.Length(r) == kb * z3.Length(sa))
        if isinstance(a, VC) and len(a.py) == 1:
            # small explicit cases, enough for padding arithmetic
            for k in range(0, 5):
                st.assume(z3.Implies(kb == k, r == z3.StringVal(a.py * k)))
        return VStr(r)


def _select_patterns(body, var, uf=False):
    """every array read / unary UF application whose argument mentions the bound variable, as alternative patterns"""
    pats, seen, stack = [], set(), [body]
    def mentions(t):
        st2, vis = [t], set()
        while st2:
            u = st2.pop()
            if u.get_id() in vis:
                continue
            vis.add(u.get_id())
            if z3.eq(u, var):
                return True
            st2.extend(u.children())
        return False
    while stack:
        t = stack.pop()
        if t.get_id() in seen:
            continue
        seen.add(t.get_id())
        if z3.is_select(t) and mentions(t.arg(1)) and not mentions(t.arg(0)) and "if(" not in t.arg(1).sexpr().replace(" ", "").replace("ite", "if("):
            if not any(z3.eq(t, p) for p in pats):
                pats.append(t)
            continue
        if uf and z3.is_app(t) and t.decl().kind() == z3.Z3_OP_UNINTERPRETED and t.num_args() == 1 and z3.eq(t.arg(0), var):
            if not any(z3.eq(t, p) for p in pats):
                pats.append(t)
            continue
        if z3.is_quantifier(t):
            continue
        stack.extend(t.children())
    return pats


def _as_load(node):
    import copy

    n = copy.deepcopy(node)
    for sub in ast.walk(n):
        if hasattr(sub, "ctx"):
            sub.ctx = ast.Load()
    return n
