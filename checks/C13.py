"""C13 - library modules behave like the same code written in the main file (bounded)."""
import time

from pyvc.report import HELD, VIOLATED, Ob, Report


def run(tier, seed):
    rep = Report("C13", tier, seed, level="exploration")
    from bounded import explore as E
    from bounded import props as P
    from bounded.driver import replay_known, run_bounded

    replay_known(rep, "C13")
    q = tier == "quick"
    # the reference semantics executes every module in its own namespace (each module's globals are its own, __name__ is the
    # module name), which is the meaning of "the single-file program obtained by prefixing every library-level name"
    recs = run_bounded(rep, "C13", [("modules-collide", {"modules": True}, "modules", 700 if q else 15000),
                                    ("modules-labels", {"modules": True, "collide": False}, "modules-rl", 400 if q else 8000),
                                    ("modules-sibling", {"modules": True, "sibling_tail": True}, "modules", 300 if q else 6000)],
                       budget_s=60 if q else 1200, seed=seed, want=["C13", "C01", "C02", "C04"], clause="compiler.compile_code#modules_behave_like_merged_source")
    # failures of the simulation postcondition on module programs are failures of this property
    # ... and so is a register shared by two live values across module scopes (allocation validator, bounded/liveness.py)
    bad = [r for r in recs if r.get("fails", {}).get("C02") or r.get("fails", {}).get("C01") or r.get("fails", {}).get("C04")]
    for r in sorted(bad, key=lambda r: r["seed"])[:4]:
        f = (r["fails"].get("C01") or r["fails"].get("C02") or r["fails"].get("C04"))[0]
        rep.add(Ob(f"compiler.compile_code#modules_behave_like_merged_source[seed={r['seed']}]", VIOLATED, kind="bounded", backend="native", target="compiler.compile_code",
                   witness={"sources": f["sources"], "options": f["options"], "seed": r["seed"]}, replayed=True, detail={"observed": f["what"], "emitted_code": f.get("code")}))
    if bad:
        rep.obs = [o for o in rep.obs if not (o.verdict == HELD and o.id == "compiler.compile_code#modules_behave_like_merged_source")]
    t0 = time.time()
    n = 250 if q else 6000
    tasks = [(seed * 7919 + i, o) for i in range(n) for o in ({"append_version": False}, {"append_version": False, "inline_functions": False})]
    urec, _, _ = E.run_pool(P.unused_library_task, tasks, 40 if q else 600)
    ufail = [r for r in urec if r.get("fails", {}).get("C13")]
    ran = [r for r in urec if r["status"] in ("ok", "fail")]
    rep.bounded["evaluations"] += 2 * len(ran)
    if not ufail:
        rep.add(Ob("compiler.compile_code#never_called_library_code_emits_nothing", HELD, kind="bounded", backend="native", target="compiler.compile_code",
                   bound=f"{len(urec)} (program, options) pairs, {len(ran)} compiled", time_s=time.time() - t0))
    for r in ufail[:3]:
        f = r["fails"]["C13"][0]
        rep.add(Ob(f"compiler.compile_code#never_called_library_code_emits_nothing[seed={r['seed']}]", VIOLATED, kind="bounded", backend="native", target="compiler.compile_code",
                   witness={"sources": f["sources"], "options": f["options"], "seed": r["seed"]}, replayed=True, detail={"observed": f["what"]}))
    rep.trust("spec/dialect.py (modules executed by CPython in separate namespaces)", "spec/ic10_machine.py")
    rep.assume("relational, whole-pipeline property: no function-level contract carries it; bounded only",
               "push/pop calling convention with library functions and equal function names under remove_labels are recorded known findings and not in the explored vectors")
    return rep.finish(min_obligations=2)
