"""C17 - reported size statistics describe the emitted program."""
from pyvc.report import Report


def corner_programs(rep):
    """programs at the edges of the layout code (nothing emitted, one line, lines too long for the version note) under all 256 option vectors"""
    import time

    from bounded import harness as H
    from bounded.props import check_stats
    from pyvc.report import HELD, VIOLATED, Ob

    h = "from stationeers_pytrapic.symbols import *\n"
    long_expr = " + ".join(["d0.Setting"] * 12)
    progs = ["", "\n", "# only a comment\n", h, h + "pass\n", h + "db.Setting = 1\n", h + "x = 1\n", h + f"db.Setting = {long_expr}\n",
             h + 'db.Setting = SolarPanels["A rather long name for a solar panel array"].Horizontal.Average + GrowLights["Another long name, with punctuation"].On.Sum\n',
             h + "def f(a):\n    return a + 1\ndb.Setting = f(d0.Setting)\n", h + "while True:\n    yield_()\n"]
    t0 = time.time()
    bad, n = None, 0
    for src in progs:
        for bits in range(256):
            opts = H.options_from_bits(bits)
            res = H.compile_program(src, opts)
            if "code" not in res:
                continue
            n += 1
            f = check_stats(res)
            if f and bad is None:
                bad = (src, opts, f[0], res["code"])
    ob = Ob("compiler.compile_code#statistics_describe_the_emitted_text[corner programs]", HELD if not bad else VIOLATED, kind="bounded", backend="native", target="compiler.compile_code",
            bound=f"{n} compilations: {len(progs)} corner programs (empty, comment-only, one line, lines too long for the version note, one function) x all 256 option vectors", time_s=time.time() - t0)
    if bad:
        ob.witness, ob.replayed = {"sources": bad[0], "options": bad[1]}, True
        ob.detail["observed"], ob.detail["emitted_code"] = bad[2], bad[3]
    rep.add(ob)
    rep.bounded["evaluations"] = rep.bounded.get("evaluations", 0) + n


def run(tier, seed):
    rep = Report("C17", tier, seed, level="exploration")
    from bounded.driver import replay_known, run_bounded

    from contracts.stats_c import stats_contract
    from pyvc.runner import run_contracts

    from contracts.regalloc_u import symbol_body_contract

    # "none of which is missing from the count": every register handed out by the symbol loop of assign_registers is added
    # to the scope's used set (the same block contract as in C04)
    run_contracts(rep, [stats_contract(), symbol_body_contract()])
    replay_known(rep, "C17")
    q = tier == "quick"
    run_bounded(rep, "C17", [("general", {}, "calls", 800 if q else 15000), ("state-only", {"modules": True, "state_only": True}, "modules", 150 if q else 2000), ("modules", {"modules": True, "collide": False}, "modules-rl", 600 if q else 8000),
                             ("calls", {"calls_focus": True, "max_funcs": 3}, "cover16", 120 if q else 2000), ("general-version", {}, "version", 200 if q else 4000)],
                budget_s=70 if q else 1200, seed=seed)
    corner_programs(rep)
    rep.trust("bounded/props.py:check_stats (recount of lines, bytes with two-byte line ends, distinct r0-r15 tokens)")
    rep.assume("proved part (block contract on the real statements of get_code): the reported numbers are computed from the returned text by the property's formulas; the version-note statement is abstracted (any text), everything before it is the symbolic input",
               "len(x.splitlines()) is taken as the line count of x (equal to the number of '\\n'-separated lines for emitted text; the bounded recount uses split('\\n') independently)",
               "that used_registers contains every allocated register is NOT proved (register_assignment.assign_registers is bounded only: recount of r<N> tokens in the output)",
               "generated programs never write user-chosen register names, so every r<N> token in the output was allocated by the transpiler")
    return rep.finish(min_obligations=1)
