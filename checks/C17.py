"""C17 - reported size statistics describe the emitted program."""
from pyvc.report import Report


def run(tier, seed):
    rep = Report("C17", tier, seed, level="exploration")
    from bounded.driver import replay_known, run_bounded

    replay_known(rep, "C17")
    q = tier == "quick"
    run_bounded(rep, "C17", [("general", {}, "calls", 800 if q else 15000), ("state-only", {"modules": True, "state_only": True}, "modules", 150 if q else 2000), ("modules", {"modules": True, "collide": False}, "modules-rl", 600 if q else 8000),
                             ("calls", {"calls_focus": True, "max_funcs": 3}, "cover16", 120 if q else 2000)],
                budget_s=70 if q else 1200, seed=seed)
    rep.trust("bounded/props.py:check_stats (recount of lines, bytes with two-byte line ends, distinct r0-r15 tokens)")
    rep.assume("generated programs never write user-chosen register names, so every r<N> token in the output was allocated by the transpiler")
    return rep.finish(min_obligations=1)
