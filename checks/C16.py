"""C16 - device, enum and instruction tables are internally consistent (exhaustive over the finite tables)."""
from pyvc.report import Report


def run(tier, seed):
    rep = Report("C16", tier, seed, level="proof")
    from contracts import tables_c as T

    for fn in (T.structure_obligations, T.intrinsic_obligations, T.enum_obligations):
        obs, info = fn()
        rep.extend(obs)
        rep.extra.setdefault("tables", {}).update(info)
    rep.extend(T.enum_snapshot_obligations())
    rep.extra["exhaustive"] = True
    rep.trust("spec/crc32.py (bit-serial CRC-32, independent of zlib)", "spec/ic10_isa.py (operand shapes per opcode)",
              "webapp/src/ic10.json (opcode list shipped by the repository)", "spec/enum_snapshot.json (enum numbers of the pinned tree, treated as game data)")
    rep.assume("obligations are closed terms evaluated on the imported tables of the working tree; no solver involved")
    return rep.finish(min_obligations=2000)
