"""C11 - a compilation's result does not depend on what was compiled before."""
from pyvc.report import Report


def run(tier, seed):
    rep = Report("C11", tier, seed, level="other")
    from contracts import history_c as HC

    rep.extend(HC.global_write_scan())
    rep.extend(HC.cache_key_scan())
    rep.extend(HC.output_mode_scan())
    rep.extend(HC.set_iteration_scan())
    HC.history_check(rep, tier, seed)
    rep.extra["explanation"] = ("a deductive frame proof of compile_code (nothing reachable from a global, an argument or a class attribute is modified) needs ownership reasoning over "
                                "astroid objects and ~40k lines of generated classes and is out of reach; decided by (i) mechanical scans of the package AST whose every hit must be "
                                "classified in the sidecar with the lemma that makes it harmless (an unclassified write / set iteration fails), (ii) a bounded contract: request "
                                "histories in one process against fresh-process results under several hash seeds, with deep snapshots of options and sources")
    rep.trust("the scans over-approximate by name (a new reader/writer under another name is reported, an aliased one is not seen)")
    rep.assume("constexpr bodies are deterministic (the memo returns what re-evaluation would)", "bounded part: histories of length <= 3 over the request pool")
    return rep.finish(min_obligations=6)
