"""C14 - the compile daemon answers every request with exactly one line."""
import time

from pyvc.report import DISCHARGED, HELD, VIOLATED, Ob, Report
from pyvc.runner import run_contracts


def run(tier, seed):
    rep = Report("C14", tier, seed, level="proof")
    from contracts import daemon_c as D

    run_contracts(rep, D.daemon_contracts() + [D.main_contract()])
    rep.add(Ob("mod_daemon#logging_disabled_premise", DISCHARGED if D.logging_is_off() else VIOLATED, kind="scan", backend="scan", target="mod_daemon",
               replayed=True, witness={"module": "mod_daemon"}, detail={"observed": "the last module-level assignment to ENABLE_LOGGING is not the constant False: log()/error() open files and may raise"}
               if not D.logging_is_off() else {}))
    D.stdout_scan(rep)
    D.process_histories(rep, tier, seed)
    for a in D.ASSUMED:
        rep.assume(a)
    rep.trust("pyvc exception-flow encoding (try/except/finally, return inside try)", "z3")
    return rep.finish(min_obligations=5)
