"""C07 - when the top-level script finishes, nothing else runs (bounded; region map on the reference machine)."""
from pyvc.report import Report


def run(tier, seed):
    rep = Report("C07", tier, seed, level="exploration")
    from bounded.driver import replay_known, run_bounded

    replay_known(rep, "C07")
    q = tier == "quick"
    run_bounded(rep, "C07", [("calls", {"calls_focus": True, "max_funcs": 3}, "calls", 1400 if q else 20000),
                             ("general", {}, "calls", 500 if q else 10000),
                             ("chain", {"calls_focus": True, "chain": True, "max_funcs": 4}, "calls", 400 if q else 8000),
                             ("nested", {"calls_focus": True, "nested_defs": True, "max_funcs": 2}, "calls", 400 if q else 8000),
                             ("terminating", {"terminating": True, "named_consts": True, "max_funcs": 2}, "inline-only", 500 if q else 10000)],
                budget_s=80 if q else 1500, seed=seed)
    rep.trust("spec/ic10_machine.py (region map: the lines from a function label to the next function label)")
    rep.assume("obligation (a) 'the end of the main code is never reached by falling into a function region' is a recorded known finding (every terminating main falls through; pinned by .ref files): "
               "the explored programs end in an endless loop so that (a) is masked and (b) 'function regions are entered only by jal / tail-call jumps' keeps reporting",
               "bounded: generated programs only")
    return rep.finish(min_obligations=1)
