"""C09 - emitted text is loadable IC10."""
from pyvc.report import Report
from pyvc.runner import run_contracts


def run(tier, seed):
    rep = Report("C09", tier, seed, level="proof")
    from bounded.driver import replay_known, run_bounded
    from contracts import operands_c as OC
    from contracts.utils_tables_c import fold_contracts

    cs = [OC.format_int_contract()] + OC.operand_contracts() + OC.instruction_contracts()
    # kind clauses of the fold tables: a folded literal is a number or bool (never complex / str / None)
    run_contracts(rep, cs + fold_contracts(), prop_filter=lambda ob: "#fold_equals_chip" not in ob.id)
    rep.extend(OC.opcode_scan())
    n = OC.float_text_check(rep, tier, seed)
    replay_known(rep, "C09")
    q = tier == "quick"
    run_bounded(rep, "C09", [("general", {}, "calls", 450 if q else 15000), ("calls", {"calls_focus": True, "max_funcs": 3}, "cover16", 100 if q else 2000),
                             ("general", {}, "version", 250 if q else 6000),
                             ("modules", {"modules": True, "collide": False}, "modules-rl", 300 if q else 6000)],
                budget_s=45 if q else 1200, seed=seed)
    rep.bounded["evaluations"] += n
    rep.trust("spec/ic10_isa.py (opcodes, operand counts and kinds)", "pyvc encoding of Python (DESIGN 4)", "z3")
    rep.assume("assumed library contracts: format(int,'X') / str(int) read back exactly; format(float,'.16g') is correctly rounded and has no exponent for 1e-4 <= |v| < 1e16",
               "the small-magnitude float branch of to_string (str.format with a computed precision) and whole outputs are covered by the bounded checks only",
               "float operands of magnitude >= 2**63 are outside the contract (known finding C09-hex-beyond-64-bit)")
    return rep.finish(min_obligations=40)
