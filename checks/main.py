"""Driver: ./check <Cxx> [--tier quick|thorough] [--replay FILE]"""
import argparse
import importlib
import os
import sys


def main():
    ap = argparse.ArgumentParser()
    ap.add_argument("prop")
    ap.add_argument("--tier", default=os.environ.get("VERIF_TIER", "quick"), choices=["quick", "thorough"])
    ap.add_argument("--replay", default=None)
    a = ap.parse_args()
    seed = int(os.environ.get("VERIF_SEED", "0") or 0)
    os.environ["VERIF_SEED"] = str(seed)
    from pyvc.report import run_check

    try:
        mod = importlib.import_module("checks." + a.prop)
    except ModuleNotFoundError:
        print(f"CHECKER-ERROR: no check for {a.prop}")
        return 3
    if a.replay:
        from pyvc.replaycmd import replay_file

        return replay_file(a.prop, a.replay)
    return run_check(a.prop, mod.run, a.tier, seed)


if __name__ == "__main__":
    sys.exit(main())
