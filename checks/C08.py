"""C08 - compact output means the same as verbose output."""
from pyvc.report import Report
from pyvc.runner import run_contracts


def run(tier, seed):
    rep = Report("C08", tier, seed, level="proof")
    from contracts.tokens_c import token_contracts

    run_contracts(rep, token_contracts())
    rep.trust("pyvc encoding of Python (DESIGN 4)", "spec/tokens.py, spec/crc32.py", "z3 / cvc5")
    return rep.finish(min_obligations=10)
