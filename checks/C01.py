"""C01 - compiled IC10 behaves like the Python source."""
from pyvc.report import Report


def run(tier, seed):
    rep = Report("C01", tier, seed, level="exploration")
    from bounded.driver import replay_known, run_bounded
    from contracts.branch_tables_c import suffix_obligations

    rep.extend(suffix_obligations())
    from contracts.emitters_c import emitter_contracts
    from pyvc.runner import run_contracts

    run_contracts(rep, emitter_contracts())
    replay_known(rep, "C01")
    q = tier == "quick"
    run_bounded(rep, "C01", [("general", {}, "default", 1800 if q else 30000),
                             ("calls", {"calls_focus": True, "max_funcs": 3}, "default", 1500 if q else 20000),
                             ("deep", {"depth": 4, "max_stmts": 8, "max_funcs": 3}, "default", 400 if q else 15000),
                             ("chain", {"calls_focus": True, "chain": True, "max_funcs": 4}, "calls", 300 if q else 8000),
                             ("nested", {"calls_focus": True, "nested_defs": True, "max_funcs": 2}, "calls", 200 if q else 6000),
                             ("consts", {"named_consts": True}, "default", 500 if q else 10000),
                             ("terminating", {"terminating": True, "named_consts": True, "max_funcs": 2}, "inline-only", 300 if q else 8000)],
                budget_s=75 if q else 1200, seed=seed)
    rep.trust("spec/ic10_machine.py (reference IC10 machine)", "spec/dialect.py (source executed by CPython against simulated devices)",
              "spec/ic10_ops.py", "spec/ic10_isa.py", "spec/enum_snapshot.json")
    rep.assume("proved part: branch-suffix tables (finite doubles; NaN excluded by the property's domain) and the device / slot / stack / batch emitters of types.py "
               "(operand roles per spec/ic10_isa.py ROLES; compute_hash / format_enum through their contracts); the composition of emitted fragments is not proved",
               "bounded part: the simulation contract of compile_code is evaluated on generated programs only (sizes in coverage.bounded); "
               "programs stay in the fragment where Python and IC10 arithmetic coincide; shapes that trigger recorded known findings are excluded from generation (DESIGN 9)",
               "device reads are a function of (device, quantity, tick); the chip's own writes do not feed back into reads")
    return rep.finish(min_obligations=150)
