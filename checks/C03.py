"""C03 - compile-time evaluation equals run-time evaluation."""
from pyvc.report import Report
from pyvc.runner import run_contracts


def math_function_folds(rep, tier, seed):
    """Bounded stand-in for utils.is_constant's math-function branch (not within the verifier's reach: it walks astroid nodes):
    a call of sin / cos / tan / asin / acos / atan / atan2 / sqrt / log / exp on constants is folded to the literal that the
    run-time instruction computes for the same operands (reference: the IEEE double result of the C library function, which
    is what the instruction computes), to 15 significant digits, including results of very small and very large magnitude."""
    import math
    import random
    import time

    from pyvc.report import HELD, VIOLATED, Ob
    from spec.ic10_machine import parse_number
    from stationeers_pytrapic.compiler import CompileOptions, compile_code

    t0 = time.time()
    rnd = random.Random(seed)
    h = "from stationeers_pytrapic.symbols import *\n"
    one = {"sin": math.sin, "cos": math.cos, "tan": math.tan, "asin": math.asin, "acos": math.acos, "atan": math.atan, "sqrt": math.sqrt, "log": math.log, "exp": math.exp}
    args = [0.5, 1, 2, 3.25, 1e-7, 5e-13, 1e-25, 1e-300, 30, 700, -30, -700, -0.75, 1e6, math.pi, math.pi / 2, 0.9999999999]
    args += [rnd.uniform(-40, 40) for _ in range(20 if tier == "quick" else 400)] + [10 ** rnd.uniform(-30, 3) for _ in range(20 if tier == "quick" else 400)]
    bad, n = None, 0
    cases = [(f, (a,)) for f in one for a in args] + [("atan2", (a, b)) for a in args[:12] for b in (1, -2.5, 1e-20, 1e12)]
    for f, xs in cases:
        try:
            want = one[f](*xs) if f != "atan2" else math.atan2(*xs)
        except (ValueError, OverflowError):
            continue
        if want != want or abs(want) == math.inf:
            continue
        src = h + f"db.Setting = {f}({', '.join(repr(x) for x in xs)})\n"
        r = compile_code(src, CompileOptions(append_version=False))
        if "code" not in r:
            continue
        lines = [l.split() for l in r["code"].split("\n") if l.strip()]
        if len(lines) != 1 or lines[0][:3] != ["s", "db", "Setting"]:
            continue  # not folded: the instruction is emitted and computes the value at run time
        n += 1
        got = parse_number(lines[0][3])
        if got is None or not (got == want or abs(got - want) <= 1e-14 * abs(want)):
            bad = (src, lines[0][3], want)
            break
    ob = Ob("utils.is_constant#folded_math_function_equals_the_instruction", HELD if not bad else VIOLATED, kind="bounded", backend="native", target="utils.is_constant",
            bound=f"{n} folded calls of 10 math functions on constant operands (fixed boundary operands + random ones, results from 1e-300 to 1e300)", time_s=time.time() - t0)
    if bad:
        ob.witness, ob.replayed = {"sources": bad[0], "options": {"append_version": False}}, True
        ob.detail["observed"] = f"folded to {bad[1]}, the instruction computes {bad[2]!r}"
    rep.add(ob)


def run(tier, seed):
    rep = Report("C03", tier, seed, level="proof")
    from contracts.tokens_c import token_contracts
    from contracts.utils_tables_c import fold_contracts

    cs = fold_contracts()
    # operand evaluation: _e and what it relies on (numeric rendering of HASH("...") tokens)
    cs += [c for c in token_contracts() if c.name in ("utils._e", "types.compute_hash{NUMERIC}", "utils.calc_hash", "types._apply_output_mode")]
    # the value clauses belong to C03; the kind clauses are reported by C09
    run_contracts(rep, cs, prop_filter=lambda ob: "#kind_is_number" not in ob.id)
    math_function_folds(rep, tier, seed)
    rep.trust("spec/ic10_ops.py (IC10 ALU semantics)", "spec/tokens.py, spec/crc32.py (HASH = signed CRC-32)",
              "pyvc encoding of Python floats as IEEE-754 binary64 (z3 FP theory)", "z3 5.1 and cvc5 as decision procedures")
    rep.assume("domain: finite doubles; |v| < 2**53 for bit operations; shift counts 0..63; positive modulus (property C03 quantifier)")
    return rep.finish(min_obligations=40)
