"""C03 - compile-time evaluation equals run-time evaluation."""
from pyvc.report import Report
from pyvc.runner import run_contracts


def run(tier, seed):
    rep = Report("C03", tier, seed, level="proof")
    from contracts.tokens_c import token_contracts
    from contracts.utils_tables_c import fold_contracts

    cs = fold_contracts()
    # operand evaluation: _e and what it relies on (numeric rendering of HASH("...") tokens)
    cs += [c for c in token_contracts() if c.name in ("utils._e", "types.compute_hash{NUMERIC}", "utils.calc_hash", "types._apply_output_mode")]
    # the value clauses belong to C03; the kind clauses are reported by C09
    run_contracts(rep, cs, prop_filter=lambda ob: "#kind_is_number" not in ob.id)
    rep.trust("spec/ic10_ops.py (IC10 ALU semantics)", "spec/tokens.py, spec/crc32.py (HASH = signed CRC-32)",
              "pyvc encoding of Python floats as IEEE-754 binary64 (z3 FP theory)", "z3 5.1 and cvc5 as decision procedures")
    rep.assume("domain: finite doubles; |v| < 2**53 for bit operations; shift counts 0..63; positive modulus (property C03 quantifier)")
    return rep.finish(min_obligations=40)
