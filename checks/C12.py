"""C12 - constexpr calls are replaced by exactly what the function returns."""
from pyvc.report import Report


def run(tier, seed):
    rep = Report("C12", tier, seed, level="exploration")
    from contracts import history_c as HC

    rep.extend(HC.cache_key_scan())
    HC.constexpr_check(rep, tier, seed)
    rep.trust("direct in-process evaluation of the same function text with HASH = signed CRC-32 (spec/crc32.py) as oracle", "spec/ic10_machine.py literal parser")
    rep.assume("the function under contract delegates to a CPython child process: 'equals ordinary Python evaluation' has no deductive form here; bounded only",
               "a child timeout (1 s, load dependent) is inconclusive, never a verdict",
               "proved part (scan): the memo key is the complete evaluation script, so a hit returns what re-evaluation would")
    return rep.finish(min_obligations=2)
