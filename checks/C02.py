"""C02 - every combination of compile options preserves program behaviour (bounded relational contract on compile_code)."""
from pyvc.report import Report


def run(tier, seed):
    rep = Report("C02", tier, seed, level="exploration")
    from bounded.driver import replay_known, run_bounded

    replay_known(rep, "C02")
    q = tier == "quick"
    run_bounded(rep, "C02", [("calls-cover", {"calls_focus": True, "max_funcs": 3}, "cover16", 260 if q else 2500),
                             ("general-cover", {}, "cover16", 200 if q else 2500),
                             ("chain-cover", {"calls_focus": True, "chain": True, "max_funcs": 4}, "cover16", 120 if q else 2000),
                             ("chain-tco", {"calls_focus": True, "chain": True, "max_funcs": 4}, "tco", 400 if q else 6000),
                             ("calls-tco", {"calls_focus": True, "max_funcs": 3}, "tco", 300 if q else 6000),
                             ("calls-all256", {"calls_focus": True, "max_funcs": 3}, "cover16" if q else "all256", 40 if q else 300)],
                budget_s=80 if q else 1500, seed=seed)
    rep.trust("spec/ic10_machine.py", "spec/dialect.py", "spec/ic10_ops.py", "spec/ic10_isa.py")
    rep.assume("no function-level contract carries this property (inlining, tail calls and push/pop placement are spread over several astroid walkers): bounded only",
               "every successfully compiled vector is executed on the reference machine and compared with the source semantics (hence pairwise with every other vector); "
               "quick: a pairwise covering array of 16 vectors + the 2 vectors of the repository's suite, thorough: all 256 vectors on a subset",
               "an out-of-registers error under some vectors only is not counted as a difference (inlining changes register pressure)",
               "the in-source-pragma clause is carried by C15 (pragma => same CompileOptions)")
    return rep.finish(min_obligations=1)
