"""C18 - share links round-trip (types.encode_data / types.decode_data)."""
from pyvc.report import Report
from pyvc.runner import run_contracts


def run(tier, seed):
    rep = Report("C18", tier, seed, level="proof")
    from contracts.types_codec_c import ASSUMED, codec_contracts, native_sweep, roundtrip_lemma

    cs = codec_contracts()
    run_contracts(rep, cs)
    roundtrip_lemma(rep)
    native_sweep(rep, seed, 600 if tier == "quick" else 6000)
    rep.trust("pyvc encoding of Python (DESIGN 4); array model of strings with trigger-based quantifier instantiation (z3, MBQI off)",
              "z3 as decision procedure")
    for a in ASSUMED:
        rep.assume("external contract (not proved here): " + a)
    return rep.finish(min_obligations=6)
