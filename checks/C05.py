"""C05 - every jump lands on the instruction the source construct meant (bounded)."""
from pyvc.report import Report


def run(tier, seed):
    rep = Report("C05", tier, seed, level="exploration")
    from bounded.driver import replay_known, run_bounded

    replay_known(rep, "C05")
    q = tier == "quick"
    run_bounded(rep, "C05", [("calls", {"calls_focus": True, "max_funcs": 3}, "labels", 900 if q else 15000),
                             ("general", {}, "labels", 700 if q else 15000),
                             ("names", {"calls_focus": True, "tricky_names": True, "max_funcs": 2}, "labels", 500 if q else 10000),
                             ("modules", {"modules": True, "collide": False}, "modules-rl", 500 if q else 8000)],
                budget_s=80 if q else 1500, seed=seed, want=["C05", "C01"])
    rep.trust("bounded/props.py:spec_remove_labels (the property's own definition: labels replaced token-wise by the index of the following instruction)",
              "spec/ic10_machine.py tokeniser")
    rep.assume("remove_labels / remove_unused_labels are regular-expression rewrites of whole lines: outside SMT reach, bounded only",
               "identifier collisions that are recorded known findings (prefix names, label text inside HASH(), f/fend) are excluded from generation")
    return rep.finish(min_obligations=1)
