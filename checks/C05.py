"""C05 - every jump lands on the instruction the source construct meant (label-map loop proved; substitution phase bounded)."""
from pyvc.report import Report


def run(tier, seed):
    rep = Report("C05", tier, seed, level="exploration")
    from bounded.driver import replay_known, run_bounded

    from contracts.labels_c import run_into

    # proved part: the label -> line-number loop of remove_labels, for texts of every length
    run_into(rep)
    from contracts.unused_labels_c import run_into as run_unused

    # proved part: remove_unused_labels (labelled mode) never removes a label some line refers to, for texts of every length
    run_unused(rep)
    replay_known(rep, "C05")
    q = tier == "quick"
    run_bounded(rep, "C05", [("calls", {"calls_focus": True, "max_funcs": 3}, "labels", 900 if q else 15000),
                             ("general", {}, "labels", 700 if q else 15000),
                             ("names", {"calls_focus": True, "tricky_names": True, "max_funcs": 2}, "labels", 500 if q else 10000),
                             ("modules", {"modules": True, "collide": False}, "modules-rl", 500 if q else 8000)],
                budget_s=80 if q else 1500, seed=seed, want=["C05", "C01"])
    rep.trust("bounded/props.py:spec_remove_labels (the property's own definition: labels replaced token-wise by the index of the following instruction)",
              "spec/ic10_machine.py tokeniser")
    rep.assume("proved part (loop contract on the real statements of remove_labels): str operations (split, strip, endswith, slicing, truthiness) and membership in keep_labels are pure functions of their receiver, modelled as uninterpreted functions named after the operation; code.splitlines() is a list of symbolic length; integers mathematical",
               "the kept-line count K is defined by recursion; its unfolding is used at the loop index and in two separately proved induction lemmas only",
               "for-each rule (remove_unused_labels, inner loop over a set): `for x in S: if c(x): U.add(x)` with U != S and c not reading U is summarised as U' = U | {x in S : c(x)}; set difference is axiomatised pointwise",
               "the result of remove_unused_labels is read as the list `result` (the final '\\n'.join is not modelled)",
               "the substitution phase of remove_labels is a regular-expression rewrite of whole lines: outside SMT reach, bounded only",
               "identifier collisions that are recorded known findings (prefix names, label text inside HASH(), f/fend) are excluded from generation")
    return rep.finish(min_obligations=1)
