"""C15 - in-source '# pytrapic:' directives set exactly the named options."""
import itertools
import random
import time

from pyvc.report import HELD, VIOLATED, Ob, Report
from pyvc.runner import run_contracts


def run(tier, seed):
    rep = Report("C15", tier, seed, level="proof")
    from contracts import compiler_c as CC

    run_contracts(rep, [CC.tag_contract(), CC.compile_code_contract()])
    # bounded stand-in for the whole scanner (line filter, tag list, last-one-wins): options the real scanner hands to the
    # compiler (observed by rebinding compiler.Compiler in this process) against an independent reading of the property
    q = tier == "quick"
    t0 = time.time()
    rnd = random.Random(seed)
    srcs = CC.directive_sources(seed, 300 if q else 5000)
    bad, n, distinct = None, 0, set()
    for src in srcs:
        for _ in range(2 if q else 6):
            caller = {f: rnd.random() < 0.5 for f in CC.OPTION_FIELDS}
            got, caller_after = CC.capture_options(src, caller)
            want = CC.spec_scan(src, caller)
            n += 1
            distinct.add(src)
            if got != want or caller_after != caller:
                bad = (src, caller, got, want, caller_after)
                break
        if bad:
            break
    ob = Ob("compiler.compile_code#directive_scan_equals_spec", HELD if not bad else VIOLATED, kind="bounded", backend="native",
            bound=f"{len(srcs)} generated directive texts x random caller vectors", time_s=time.time() - t0, target="compiler.compile_code")
    if bad:
        ob.witness, ob.replayed = {"source": bad[0], "caller_options": bad[1]}, True
        ob.detail["observed"] = f"scanner produced {bad[2]}, the property's reading gives {bad[3]}; caller's object afterwards {bad[4]}"
    rep.add(ob)
    # the result equals the one obtained by passing the resulting option values through the API
    t0 = time.time()
    from stationeers_pytrapic.compiler import CompileOptions, compile_code

    body = "from stationeers_pytrapic.symbols import *\ndef f(p):\n    if p > 2:\n        return 1\n    return HASH(\"abcdefgh\") + p\nwhile True:\n    db.Setting = f(d0.Setting)\n    db.On = f(d0.On)\n    yield_()\n"
    bad2 = None
    m = 0
    for src in srcs[: 60 if q else 600]:
        caller = {f: rnd.random() < 0.5 for f in CC.OPTION_FIELDS}
        full = src.replace("x = 1\n", "") + body
        want = CC.spec_scan(full, caller)
        a = compile_code(full, CompileOptions(**caller))
        neutral = "\n".join(("#" + "-" * max(0, len(l) - 1)) if l.lstrip().startswith("#") else l for l in full.split("\n"))
        b = compile_code(neutral, CompileOptions(**want))
        m += 1
        strip = lambda r: {k: v for k, v in r.items() if k not in ("code",)} if want.get("original_code_as_comment") else r
        if ("code" in a) != ("code" in b) or (not want.get("original_code_as_comment") and a.get("code") != b.get("code")) or a.get("num_registers") != b.get("num_registers"):
            bad2 = (full, caller, want, a.get("code", a), b.get("code", b))
            break
    ob = Ob("compiler.compile_code#directives_equal_api_options", HELD if not bad2 else VIOLATED, kind="bounded", backend="native",
            bound=f"{m} programs with directive lines x random caller vectors", time_s=time.time() - t0, target="compiler.compile_code")
    if bad2:
        ob.witness, ob.replayed = {"source": bad2[0], "caller_options": bad2[1], "options_by_spec": bad2[2]}, True
        ob.detail["observed"] = f"with directives: {bad2[3]!r}\nvia API with the specified values: {bad2[4]!r}"
    rep.add(ob)
    rep.bounded.update(evaluations=n + m, distinct_nontrivial=len(distinct),
                       rule="generated directive texts (all spellings, several per line, several lines, after code, inside strings, unknown names, dunder names) x random caller vectors; distinct by text")
    rep.samples.extend(srcs[:3])
    rep.trust("pyvc encoding of Python (DESIGN 4); str.strip / str.replace as uninterpreted functions shared by code and specification", "z3")
    rep.assume("proved: the per-tag block (normalisation, known-option test, assignment, frame: the other options keep their values)",
               "bounded (not proved): line filter, comma split and order of application - str.splitlines/split over symbolic text is outside the solvers' reach")
    return rep.finish(min_obligations=3)
