"""C04 - register allocation never lets one live value overwrite another."""
import time

from pyvc.report import HELD, VIOLATED, Ob, Report
from pyvc.runner import run_contracts


def over_16_live(rep):
    """more than 16 simultaneously live values must be rejected with the out-of-registers error"""
    from stationeers_pytrapic.compiler import compile_code

    t0 = time.time()
    bad = None
    for n in (17, 18, 24):
        src = "from stationeers_pytrapic.symbols import *\n" + "".join(f"v{i} = d0.Setting + {i}\n" for i in range(n)) + "while True:\n" + "".join(f"    v{i} = v{i} + d0.On\n" for i in range(n)) + "    db.Setting = " + " + ".join(f"v{i}" for i in range(n)) + "\n    yield_()\n"
        r = compile_code(src)
        if "error" not in r or "registers" not in r["error"].get("description", ""):
            import re

            used = set(re.findall(r"\br(\d+)\b", r.get("code", "")))
            bad = (n, f"{n} simultaneously live variables were accepted; registers used: {sorted(used, key=int)}" if "code" in r else r["error"]["description"][:200], src)
            break
    ob = Ob("compiler.compile_code#more_than_16_live_values_are_rejected", HELD if not bad else VIOLATED, kind="bounded", backend="native", target="compiler.compile_code",
            bound="programs with 17, 18 and 24 simultaneously live module-level variables", time_s=time.time() - t0)
    if bad:
        ob.witness, ob.replayed = {"sources": bad[2], "options": {}}, True
        ob.detail["observed"] = bad[1]
    rep.add(ob)


def recursive_programs(rep):
    """recursive functions hold values across their own activations: they must be rejected (as the unchanged tree does) or be
    allocated soundly; a fixed set of programs, each judged by the allocation validator and by the effect comparison"""
    from bounded import props as P

    h = "from stationeers_pytrapic.symbols import *\n"
    progs = [h + "def fact(n):\n    if n <= 1:\n        return 1\n    m = fact(n - 1)\n    return n * m\ndb.Setting = fact(d0.Setting)\ndb.On = fact(3)\n",
             h + "def fib(n):\n    if n < 2:\n        return n\n    a = fib(n - 1)\n    b = fib(n - 2)\n    return a + b\nwhile True:\n    db.Setting = fib(d0.Setting)\n    db.On = fib(4)\n    yield_()\n",
             h + "def down(n):\n    t = n * 2\n    if n > 0:\n        down(n - 1)\n    db.Setting = t\ndown(d0.Setting)\ndown(2)\n",
             h + "def ping(n):\n    k = n + 1\n    if n > 0:\n        pong(n - 1)\n    db.On = k\ndef pong(n):\n    j = n * 3\n    if n > 0:\n        ping(n - 1)\n    db.Setting = j\nping(d0.Setting)\nping(2)\n"]
    t0 = time.time()
    bad, compiled = None, 0
    for src in progs:
        rec = P.full_task((0, {"sources": src}, "calls", ["C04", "C01", "C02"]))
        compiled += rec.get("n_compiled", 0) or 0
        f = rec.get("fails", {})
        hit = f.get("C04") or f.get("C02") or f.get("C01")
        if hit and bad is None:
            bad = (src, hit[0])
    ob = Ob("compiler.compile_code#recursive_functions_are_rejected_or_allocated_soundly", HELD if not bad else VIOLATED, kind="bounded", backend="native", target="compiler.compile_code",
            bound=f"{len(progs)} recursive programs (direct, double, effect after the call, mutual) x 7 option vectors; {compiled} compilations accepted", time_s=time.time() - t0)
    if bad:
        ob.witness, ob.replayed = {"sources": bad[0], "options": bad[1]["options"]}, True
        ob.detail["observed"] = bad[1]["what"]
        ob.detail["emitted_code"] = bad[1].get("code")
    rep.add(ob)


def run(tier, seed):
    rep = Report("C04", tier, seed, level="exploration")
    from bounded.driver import replay_known, run_bounded
    from contracts.regalloc_c import color_contracts

    q = tier == "quick"
    run_contracts(rep, color_contracts(5 if q else 7))
    # the K obligations are complete case analyses for the stated n, not proofs for all n: they are labelled bounded
    for ob in rep.obs:
        if ob.target and "assign_colors[n=" in ob.target:
            ob.kind = "bounded"
            ob.bound = "K: all lifetime configurations of n symbols, n <= %d" % (5 if q else 7)
            if ob.verdict == "discharged":
                ob.verdict = HELD
    # track U: the same function for symbol lists of every length (loop invariants + ghost state): proved obligations
    from contracts.regalloc_u import symbol_body_contract, u_contract

    from contracts.lifetime_c import lifetime_contract, loop_ancestor_contract

    run_contracts(rep, [u_contract(), symbol_body_contract(), loop_ancestor_contract(), lifetime_contract()])
    over_16_live(rep)
    replay_known(rep, "C04")
    run_bounded(rep, "C04", [("pressure", {"depth": 4, "max_stmts": 8, "max_funcs": 3}, "calls", 300 if q else 12000),
                             ("calls", {"calls_focus": True, "max_funcs": 3}, "calls", 400 if q else 12000),
                             ("general", {}, "default", 400 if q else 20000),
                             ("carried", {"carried": True, "calls_focus": True, "max_funcs": 1}, "calls", 500 if q else 10000),
                             ("modules", {"modules": True, "collide": False}, "modules", 300 if q else 6000),
                             ("modules-state", {"modules": True, "state_only": True}, "modules", 150 if q else 3000)],
                budget_s=75 if q else 1500, seed=seed, want=["C04", "C01", "C02"])
    recursive_programs(rep)
    rep.trust("spec/ic10_machine.py, spec/dialect.py (a clobbered live value shows up as a difference of effects)", "pyvc symbolic execution of assign_colors (complete unrolling for n symbols)")
    rep.assume("assign_colors is proved for every number of symbols (track U: 2 loop invariants of 10 + 9 clauses, ghost owner lists / slot fields; mathematical integers); the K obligations (n <= N, complete unrolling) are an independent second encoding of the same function and are labelled bounded",
               "U proof: quantified obligations are discharged by z3 e-matching (MBQI off); 'hypotheses consistent' guards can only show that false is not derivable by instantiation, not exhibit a model",
               "assign_registers: only the body of `for sym in symbols` is under contract (colour c -> c-th register not blocked by a caller, within r0-r15, else the out-of-registers error); the call-graph / blocked-set construction around it is bounded only (known findings C04-transitive-blocking, C04-inlined-return-register)",
               "get_loop_ancestor is proved to return AN enclosing loop of the function when there is one (lifetimes then cover that loop); that it is not the outermost one is the recorded finding C04-nested-loop-lifetime; the rest of IC10Register.lifetime (min / max over the widened nodes) is bounded only",
               "sorted(xs, key) is an assumed external contract (stable permutation, non-decreasing in key)",
               "that line-interval lifetimes cover real liveness is a whole-program claim: only exercised by the bounded simulation check (dynamically witnessed clobbers only)")
    return rep.finish(min_obligations=10)
