"""C10 - compile_code always returns a verdict, promptly, and cleans up."""
from pyvc.report import DISCHARGED, VIOLATED, Ob, Report
from pyvc.runner import run_contracts


def run(tier, seed):
    rep = Report("C10", tier, seed, level="proof")
    from contracts import compiler_c as CC

    run_contracts(rep, [CC.compile_contract(), CC.compile_code_contract()])
    ok = CC.timing_is_off()
    rep.add(Ob("compiler#timing_disabled_premise", DISCHARGED if ok else VIOLATED, kind="scan", backend="scan", target="compiler", replayed=True,
               witness={"module": "compiler"}, detail={} if ok else {"observed": "_DO_TIMING is not the constant False: time() prints to stdout"}))
    from bounded.c10 import verdict_corpus

    verdict_corpus(rep, tier, seed)
    for a in CC.C10_ASSUMED:
        rep.assume(a)
    rep.trust("pyvc exception-flow encoding (try / three handlers)", "z3")
    return rep.finish(min_obligations=6)
