#!/usr/bin/env python3
"""Offline triage sweep (not a registered check): runs the bounded postconditions of several properties on many seeds and
prints a summary of failures, to find shapes that need an exclusion / known finding before they become false alarms."""
import collections
import json
import sys
import time

sys.path.insert(0, str(__import__("pathlib").Path(__file__).resolve().parent.parent))
from bounded import explore as E
from bounded import props as P

WANT = ["C01", "C02", "C05", "C06", "C07", "C09", "C17"]


def main():
    seeds = range(int(sys.argv[1]), int(sys.argv[2]))
    n = int(sys.argv[3]) if len(sys.argv) > 3 else 1000
    out = sys.argv[4] if len(sys.argv) > 4 else "sweep_fails.json"
    allf = []
    for seed in seeds:
        tasks = []
        for label, gkw, vk in (("g", {}, "calls"), ("c", {"calls_focus": True, "max_funcs": 3}, "calls"), ("d", {"depth": 4, "max_stmts": 8, "max_funcs": 3}, "labels")):
            base = seed * 1_000_003 + {"g": 1, "c": 2, "d": 3}[label] * 100_000
            tasks += [(base + i, gkw, vk, WANT) for i in range(n)]
        t0 = time.time()
        recs, done, to = E.run_pool(P.full_task, tasks, 3600)
        c = collections.Counter(r["status"] for r in recs)
        per = collections.Counter()
        for r in recs:
            for p, fs in r.get("fails", {}).items():
                per[p] += 1
                allf.append({"seed": r["seed"], "prop": p, "what": fs[0]["what"], "options": fs[0]["options"], "sources": fs[0]["sources"], "code": fs[0].get("code"), "gen": r.get("gen")})
        print(f"seed {seed}: {dict(c)} fails per property {dict(per)} in {time.time() - t0:.0f}s", flush=True)
        for r in recs:
            if r["status"] == "checker-crash":
                print("CRASH", r["detail"][-600:])
                break
        json.dump(allf, open(out, "w"))
    sig = collections.Counter((f["prop"], f["what"][:70]) for f in allf)
    for k, v in sig.most_common(40):
        print(v, k)


if __name__ == "__main__":
    main()
