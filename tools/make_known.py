#!/usr/bin/env python3
"""Writes known_findings.json from the table below (run by hand; never at check time).  Each bounded finding carries the
witness program that is replayed on every run; `expect` is the text the observed failure must contain."""
import json
import sys
from pathlib import Path

ROOT = Path(__file__).resolve().parent.parent
sys.path.insert(0, str(ROOT))
from bounded.driver import CLAUSE
from bounded.known_programs import C as PROGRAMS

# id -> (properties [(property, fails-key)], what, expect)
BOUNDED = {
    "C01-inline-arg-aliases-global": ([("C01", "C01"), ("C02", "C02")], "an inlined callee binds a bare variable argument by aliasing; when it assigns that (global) variable the parameter changes too: calc(g) with 'global g; g = g + 5; return p' returns the new g", "effect #0"),
    "C01-operand-read-after-call": ([("C01", "C01")], "'g += f()' where f assigns the global g: the emitted code reads g after the call, Python reads it before", "effect #0"),
    "C01-constant-list-jump-table": ([("C01", "C01")], "constant list with 6 or more entries and a dynamic index: the jump table selects the neighbouring element ([90..95][i] yields 93 for i=2)", "effect #"),
    "C01-for-range-target-has-register": ([("C01", "C01")], "for i in range(..) when i already holds a value in a register: the body reads the old register, not the loop counter", "effect #"),
    "C01-loop-variable-modified": ([("C01", "C01")], "assigning the for-range variable inside the body changes the iteration (Python re-binds it from the range)", "effect #"),
    "C01-if-not-constant": ([("C01", "C01")], "'if not C: A else: B' with a compile-time-true C emits A", "effect #0"),
    "C04-alias-outlives": ([("C04", "C01")], "y = p (bare copy) aliases y to p's register; the register is reused after p's last use while y is still live", "effect #"),
    "C04-nested-loop-lifetime": ([("C04", "C01")], "a value read inside an inner loop is kept live only for the inner loop; a temporary of the outer loop body reuses its register", "effect #"),
    "C04-transitive-blocking": ([("C04", "C01")], "register blocking is not transitive through a caller that owns no registers: main -> f -> g, g overwrites a register live in main", "effect #"),
    "C04-inlined-return-register": ([("C04", "C01"), ("C02", "C02")], "the result register of a value-returning function that is called only from other functions is allocated in the main scope with a source-line lifetime (its def .. its last call); a main-scope temporary that is live across the inlined call chain shares it: 'db.Setting = d0.On + f()' with f returning g() + t adds g's result to itself", "effect #"),
    "C04-device-id-captured": ([("C04", "C04")], "a device object built from a register-held id (vent = Device(i)) keeps using the register after the lifetime of i ended: 't = d0.Setting * 2' is given the same register and 'vent.On = ..' addresses the wrong device", "share a register"),
    "C13-alias-shadows-local": ([("C13", "C09"), ("C09", "C09")], "'from library import a as t' while a function of library a has a local variable t: the local resolves to the module object and its repr is emitted as an operand", ""),
    "C06-forlist-call": ([("C06", "C06")], "a call inside the body of 'for .. in [list]' overwrites ra of the loop's own jal/j ra protocol", "return at line"),
    "C06-tailcall-after-call": ([("C06", "C06"), ("C02", "C02")], "tail_call_optimization: a function with a call followed by a tail call saves no return address; the inner call clobbers ra", "return at line"),
    "C06-tailcall-result-kind": ([("C06", "C06")], "tail_call_optimization + push/pop: a void function tail-calling a value-returning one leaves the pushed result on the stack", "stack pointer at top-level yields drifts"),
    "C07-tailcall-early-return": ([("C07", "C07"), ("C02", "C02")], "tail_call_optimization: a function ending in a tail call has no 'j ra' after its end label; an early return falls through into the next function", "entered by falling through"),
    "C07-main-falls-through": ([("C07", "C07a")], "top-level code that reaches its end falls through into the first function body (no terminator is emitted); pinned by test .ref files", "falls through into the first function region"),
    "C13-pushpop-library-exit": ([("C13", "C02"), ("C06", "C06")], "push/pop convention: the exit points of a library function are searched by the unqualified name, so a library function that calls and returns never restores ra", ""),
    "C05-prefix-names": ([("C05", "C05")], "remove_labels substitutes label text inside longer dotted labels: functions update and update_display give 'jal 6.display'", "label-free output line"),
    "C05-label-inside-hash": ([("C05", "C05")], "remove_labels rewrites label text inside HASH(\"...\") literals", "HASH("),
    "C05-fend-collision": ([("C05", "C05")], "a function f with an early return and a function fend both define the label 'fend:'", "defined 2 times"),
    "C09-bitwise-not-opcode": ([("C09", "C09")], "'~x' is lowered to the opcode 'neg', which is not an IC10 instruction (pinned by binop.ref)", "unknown opcode 'neg'"),
    "C09-none-operand": ([("C09", "C09")], "'db.Setting = None' emits an instruction with a missing operand", "operands"),
    "C09-complex-literal": ([("C09", "C09")], "'(-8) ** 0.5' folds to a Python complex and is printed verbatim", "Python spelling"),
    "C09-line-separator-in-name": ([("C09", "C09")], "a name containing a Unicode line separator (U+2028, also \\x0c, \\x1c, \\x85) inside HASH('..') is split over two output lines (the layout code uses splitlines())", ""),
    "C09-hex-beyond-64-bit": ([("C09", "C09")], "integers of 2**63 and above are printed as $hex literals that do not fit 64 bits", "does not fit"),
}


def main():
    old = json.loads((ROOT / "known_findings.json").read_text())
    keep = [k for k in old["findings"] if "program" not in k]
    fixed = old.get("fixed", [])
    out = list(keep)
    for kid, (props, what, expect) in BOUNDED.items():
        prop0, src, optl = PROGRAMS[kid if kid in PROGRAMS else kid.replace("C07-tailcall", "C06-tailcall")]
        for prop, key in props:
            out.append({"id": f"{kid}" if prop == props[0][0] else f"{kid}@{prop}", "property": prop, "fails_key": key,
                        "obligation": f"{CLAUSE[prop]}[known:{kid}]", "what": what, "expect": expect if prop == props[0][0] else "",
                        "program": {"sources": src, "options_list": optl}})
    (ROOT / "known_findings.json").write_text(json.dumps({"findings": out, "fixed": fixed}, indent=1))
    print(len(out), "findings")


if __name__ == "__main__":
    main()
