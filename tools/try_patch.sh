#!/bin/bash
# tools/try_patch.sh <patch.diff> <Cxx> [<Cxx> ...] : apply a seeded change to /repo, run the checks, undo it.
patch="$1"; shift
cd /verif
patch="$(realpath "$patch")"; git -C /repo apply "$patch" || { echo "patch does not apply"; exit 9; }
for c in "$@"; do
  VERIF_OUT=/var/tmp/try_patch_out ./check "$c" --tier quick | grep -E "^(VIOLATION|KNOWN-FINDING|UNDECIDED|CHECKER-ERROR|  failed|C[0-9]+ \[)" | cut -c1-300
done
git -C /repo checkout -- .
git -C /repo status --short
