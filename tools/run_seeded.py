#!/usr/bin/env python3
"""Applies every seeded change under seeded/*/patch.diff to a scratch copy of /repo's working tree (outside /repo and /verif,
removed afterwards), runs the checks named for it against that copy (PYTRAPIC_REPO), and records in seeded/<id>/meta.json
which checks reported a VIOLATION.  /repo must be clean.  Not a registered check."""
import os
import shutil
import tempfile
import json
import subprocess
import sys
from pathlib import Path

ROOT = Path(__file__).resolve().parent.parent
RUN = {"C01": ["C01"], "C02": ["C02", "C06"], "C03": ["C03", "C08"], "C04": ["C04", "C01"], "C05": ["C05"], "C06": ["C06"], "C07": ["C07"], "C08": ["C08", "C03"],
       "C09": ["C09"], "C10": ["C10"], "C11": ["C11", "C12"], "C12": ["C12", "C11"], "C13": ["C13", "C06"], "C14": ["C14"], "C15": ["C15"], "C16": ["C16"], "C17": ["C17"], "C18": ["C18"]}


def sh(*a, **k):
    return subprocess.run(*a, capture_output=True, text=True, **k)


def main():
    if sh(["git", "-C", "/repo", "status", "--short"]).stdout.strip():
        sys.exit("/repo is not clean")
    only = sys.argv[1:]
    for d in sorted((ROOT / "seeded").glob("*-agent*")):
        pid = d.name.split("-")[0]
        if only and not any(o == pid or o in d.name for o in only):
            continue
        if only and any(o.startswith("agent") for o in only) and not any(o in d.name for o in only if o.startswith("agent")):
            continue
        patch = d / "patch.diff"
        scratch = Path(tempfile.mkdtemp(prefix="seeded-", dir=os.environ.get("SCRATCH", "/var/tmp")))
        det = {}
        try:
            for sub in ("src", "test"):
                shutil.copytree(f"/repo/{sub}", scratch / sub, ignore=shutil.ignore_patterns("__pycache__"))
            (scratch / "webapp" / "src").mkdir(parents=True)
            shutil.copy("/repo/webapp/src/ic10.json", scratch / "webapp" / "src" / "ic10.json")
            r = sh(["git", "apply", str(patch)], cwd=str(scratch))
            if r.returncode:
                print(d.name, "patch does not apply:", r.stderr.strip()[:200])
                continue
            for c in RUN.get(pid, [pid]):
                out = sh([str(ROOT / "check"), c, "--tier", "quick"], cwd=str(ROOT), env=dict(os.environ, PYTRAPIC_REPO=str(scratch), VERIF_OUT=str(scratch / "out")))
                viol = [l for l in out.stdout.splitlines() if l.startswith("VIOLATION")]
                failed = [l.strip().replace("failed obligation=", "") for l in out.stdout.splitlines() if l.strip().startswith("failed obligation=")]
                det[c] = {"exit": out.returncode, "violations": len(viol), "obligations": failed[:4], "no_failing_input_found": sum("no-failing-input-found" in l for l in viol)}
        finally:
            shutil.rmtree(scratch, ignore_errors=True)
        meta = json.loads((d / "meta.json").read_text())
        meta["detected_by"] = det
        (d / "meta.json").write_text(json.dumps(meta, indent=1))
        print(d.name, {c: (v["exit"], v["violations"]) for c, v in det.items()}, flush=True)


if __name__ == "__main__":
    main()
