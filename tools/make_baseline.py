#!/usr/bin/env python3
"""Records, per property, the ids of the obligations discharged on the UNCHANGED tree (from the evidence files of
a run on a clean /repo).  Used by pyvc.report for (a) rule (b) of DESIGN section 0 and (b) the vacuity guard.
Never run by a check; run by hand after `./check Cxx` passed on a clean tree:  tools/make_baseline.py C18 C03 ..."""
import json
import subprocess
import sys
from pathlib import Path

ROOT = Path(__file__).resolve().parent.parent
dirty = subprocess.run(["git", "-C", "/repo", "status", "--short"], capture_output=True, text=True).stdout.strip()
if dirty:
    sys.exit("refusing: /repo has uncommitted changes:\n" + dirty)
p = ROOT / "baseline_obligations.json"
base = json.loads(p.read_text()) if p.exists() else {}
for prop in sys.argv[1:]:
    r = subprocess.run([str(ROOT / "check"), prop, "--tier", "quick"], capture_output=True, text=True)
    if r.returncode != 0:
        sys.exit(f"{prop}: check exits {r.returncode} on the clean tree:\n{r.stdout[-2000:]}")
    ev = json.loads((ROOT / "evidence" / f"{prop}.json").read_text())
    ids = sorted({o["id"] for o in ev["coverage"]["obligations_detail"] if o["verdict"] == "discharged"})
    base[prop] = ids
    print(prop, len(ids), "discharged obligations recorded")
p.write_text(json.dumps(base, indent=0, sort_keys=True))
