#!/bin/bash
# tools/confirm_seed.sh <Cxx> [<name>] : confirm a sub-agent's seeded change in its scratch worktree
# (suite passes with the change, demo fails with it and passes without), then keep it under seeded/<name>/.
id="$1"; name="${2:-$id-agent1}"
base=${SEEDBASE:-/tmp/seed}; wt=$base/$id; out=$base/out/$id
cd /verif
[ -f "$out/patch.diff" ] && [ -f "$out/demo.py" ] || { echo "$id: deliverables missing"; exit 1; }
git -C "$wt" checkout -q -- . ; git -C "$wt" stash clear 2>/dev/null
[ -f "$wt/src/stationeers_pytrapic/_version.py" ] || cp /repo/src/stationeers_pytrapic/_version.py "$wt/src/stationeers_pytrapic/_version.py"
export PYTHONPATH="$wt/src" PYTHONDONTWRITEBYTECODE=1
( cd "$wt" && timeout 300 /venv/bin/python "$out/demo.py" >$out/demo_clean.log 2>&1 ); clean=$?
git -C "$wt" apply "$out/patch.diff" || { echo "$id: patch does not apply"; exit 1; }
( cd "$wt" && timeout 300 /venv/bin/python "$out/demo.py" >$out/demo_patched.log 2>&1 ); patched=$?
# RELAX=1: lengthen the constexpr helper's 1 s timeout from outside the tree (needed when the machine is loaded)
if [ -n "$RELAX" ]; then
( cd "$wt" && PYTHONPATH="$wt/src:/verif/tools" /venv/bin/python -m pytest -q -p no:cacheprovider -p relax_constexpr_timeout --timeout=900 test 2>&1 | tail -3 >$out/suite.log );
else
( cd "$wt" && /venv/bin/python -m pytest -q -p no:cacheprovider --timeout=900 test 2>&1 | tail -3 >$out/suite.log );
fi

suite=$(grep -c "passed" $out/suite.log); failed=$(grep -c "failed" $out/suite.log)
echo "$id: demo clean exit=$clean patched exit=$patched suite: $(tail -1 $out/suite.log)"
if [ "$clean" = 0 ] && [ "$patched" = 1 ] && [ "$failed" = 0 ] && [ "$suite" -ge 1 ]; then
  mkdir -p seeded/$name
  cp "$out/patch.diff" "$out/demo.py" seeded/$name/
  [ -f "$out/notes.md" ] && cp "$out/notes.md" seeded/$name/
  python3 - "$id" "$name" <<PY
import json, sys, os
base = os.environ.get("SEEDBASE", "/tmp/seed")
pid, name = sys.argv[1], sys.argv[2]
notes = open(f"{base}/out/{pid}/notes.md").read() if __import__("os").path.exists(f"{base}/out/{pid}/notes.md") else ""
json.dump({"breaks_property": pid, "source": "independent sub-agent given only the property text and a scratch worktree",
           "needs_to_manifest": "see notes.md",
           "confirmed": {"suite_with_patch": open(f"{base}/out/{pid}/suite.log").read().strip().splitlines()[-1],
                         "demo_on_clean_tree_exit": 0, "demo_with_patch_exit": 1,
                         "how": "tools/confirm_seed.sh in a scratch worktree of /repo (PYTHONPATH=<worktree>/src)"},
           "detected_by": "filled in by tools/run_seeded.py"}, open(f"/verif/seeded/{name}/meta.json", "w"), indent=1)
PY
  echo "$id: kept as seeded/$name"
else
  echo "$id: NOT confirmed"; tail -5 $out/demo_clean.log $out/demo_patched.log
fi
git -C "$wt" checkout -q -- .
