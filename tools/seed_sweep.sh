#!/bin/bash
# tools/seed_sweep.sh <first> <last> [checks...]: run the quick checks under several VERIF_SEED values and report exit codes
a=$1; b=$2; shift 2
checks=${@:-C01 C02 C05 C06 C07 C13 C17 C10 C11 C12 C15}
cd "$(dirname "$0")/.."
[ -x .venv/bin/python ] || ./setup.sh >/dev/null 2>&1
for s in $(seq $a $b); do
  for c in $checks; do
    out=$(VERIF_SEED=$s nice -n 10 ./check $c --tier quick 2>/dev/null | grep -E "^(VIOLATION|  failed|C[0-9]+ \[|CHECKER|UNDECIDED)" | tr '\n' ' ' | cut -c1-400)
    echo "seed=$s $c :: $out"
  done
done
