"""pytest plugin (-p relax_constexpr_timeout, with /verif/tools on PYTHONPATH): the constexpr helper process of the package
has a hard 1 s timeout that is hit under CPU load on this machine; the plugin only lengthens timeouts passed to
Popen.communicate, it changes nothing in the tree under test."""
import subprocess

_orig = subprocess.Popen.communicate


def _patient(self, input=None, timeout=None):
    if timeout is not None:
        timeout = max(timeout, 120)
    return _orig(self, input=input, timeout=timeout)


subprocess.Popen.communicate = _patient
