#!/usr/bin/env python3
"""Writes MANIFEST.json from the table below (kept in one place so it stays consistent)."""
import json
from pathlib import Path

ROOT = Path(__file__).resolve().parent.parent
ALL = [f"C{i:02d}" for i in range(1, 19)]

CHECKS = {
    "C03": dict(
        category="proof",
        text="Every row of the binary/unary constant-fold tables is proved equal to the IC10 instruction it stands for, for all operands in the property's domain (z3 FP/BV theories), re-extracted from the working tree on every run.",
        design_ref="6.C03",
        note="Trusted: spec/ic10_ops.py, pyvc's encoding of Python (DESIGN 4), z3/cvc5, A-libm (fmod/pow shared with the game).",
        technique="contract-based deductive verification: sidecar contracts, AST-to-SMT VC generation (pyvc), z3/cvc5",
    ),
}
NA = {}


def main():
    checks = []
    for pid in ALL:
        if pid not in CHECKS:
            continue
        c = CHECKS[pid]
        checks.append({
            "property_id": pid,
            "quick_cmd": f"./check {pid} --tier quick",
            "thorough_cmd": f"./check {pid} --tier thorough",
            "evidence_file": f"evidence/{pid}.json",
            "replay_cmd_template": f"./check {pid} --replay {{path}}",
            "engine": "pyvc",
            "level_claimed": {"category": c["category"], "text": c["text"], "design_ref": c["design_ref"]},
            "level_note": c["note"],
            "technique": c["technique"],
        })
    na = [{"property_id": p, "reason": NA.get(p, "machinery not built yet (work in progress; see DESIGN.md section 11)")} for p in ALL if p not in CHECKS]
    m = {
        "version": 1,
        "setup_cmd": "./setup.sh",
        "hooks": {
            "guard": "PYTRAPIC_VERIF",
            "enable": "no source hooks: contracts are sidecars in /verif, wrappers are installed by rebinding module attributes inside the checking process",
            "baseline_off_cmd": "cd /repo && /venv/bin/python -m pytest -ra -q -p no:cacheprovider --timeout=900 --continue-on-collection-errors",
            "source_commits": [],
            "add_only": True,
        },
        "engines": [{"name": "pyvc", "path": "pyvc/", "serves_properties": sorted(CHECKS), "kind_free_text": "VC generator for a Python subset (ast -> z3/cvc5), sidecar contracts, native replay; bounded contract checks on an IC10 reference machine"}],
        "checks": checks,
        "not_applicable": na,
        "notes": "See DESIGN.md. Exit codes: 0 held, 1 violation, 2 undecided, 3 checker error.",
    }
    (ROOT / "MANIFEST.json").write_text(json.dumps(m, indent=1))
    print("checks:", [c["property_id"] for c in checks], "n/a:", len(na))


if __name__ == "__main__":
    main()
