#!/usr/bin/env python3
"""Writes MANIFEST.json from the table below (kept in one place so it stays consistent)."""
import json
from pathlib import Path

ROOT = Path(__file__).resolve().parent.parent
ALL = [f"C{i:02d}" for i in range(1, 19)]

TECH = "contract-based deductive verification: sidecar contracts on the real functions, AST-to-SMT VC generation (pyvc), z3/cvc5"
CHECKS = {
    "C03": dict(
        category="proof",
        text="Every row of the binary/unary constant-fold tables is proved equal to the IC10 instruction it stands for, for all operands in the property's domain (z3 FP/BV theories); operand evaluation (_e, HASH tokens) is proved against the signed-CRC-32 spec. Re-extracted from the working tree on every run.",
        design_ref="6.C03",
        note="Trusted: spec/ic10_ops.py, spec/tokens.py, pyvc's encoding of Python (DESIGN 4), z3/cvc5, A-libm (fmod/pow shared with the game). Propagation passes (astroid walkers) are outside the verifier's reach.",
        technique=TECH,
    ),
    "C08": dict(
        category="proof",
        text="Token functions that depend on the output mode (calc_hash, _apply_output_mode, compute_hash, compute_string, _e) are proved, for all strings/numbers and all modes, to render a token either symbolically or as exactly its numeric value.",
        design_ref="6.C08",
        note="Trusted: spec/tokens.py, spec/crc32.py, zlib.crc32 == CRC-32 (assumed, cross-checked), pyvc encoding of Python strings (z3 seq theory, validated models only).",
        technique=TECH,
    ),
    "C16": dict(
        category="proof",
        text="Finite tables: every structure class, intrinsic wrapper and enum member yields closed obligations that are decided exhaustively by evaluation against independent specs (bit-serial CRC-32, ISA operand table, ic10.json).",
        design_ref="6.C16",
        note="Trusted: spec/crc32.py, spec/ic10_isa.py, spec/enum_snapshot.json (pinned game data), the Python import of the generated modules.",
        technique="contract-based verification of finite tables: exhaustive ground obligations evaluated against trusted specs",
    ),
    "C18": dict(
        category="proof",
        text="encode_data/decode_data carry contracts over an array model of strings; the substitution/padding arithmetic is proved for texts of every length (quantified VCs, e-matching), the round trip follows from the two contracts; json/zlib/base64/UTF-8 round-trip contracts are assumed.",
        design_ref="6.C18",
        note="Assumed (not proved): json, zlib, base64, UTF-8 library contracts listed in the evidence; trusted: pyvc array-string model, z3.",
        technique=TECH,
    ),
    "C01": dict(
        category="exploration",
        text="Branch-suffix tables are proved (z3 FP) for all finite operands and the stack / device / slot / batch access emitters of types.py are proved to put every operand into the role the ISA gives it; the simulation contract of compile_code (emitted IC10 on a reference machine == source under the dialect) is a bounded stand-in evaluated on generated programs, because the code generator (astroid walkers) is outside the verifier's reach.",
        design_ref="6.C01", note="Trusted: spec/ic10_machine.py, spec/dialect.py, spec/ic10_ops.py; bounded part never counted as proved; known findings replayed on every run.",
        technique=TECH + "; bounded native contract check of compile_code as stand-in"),
    "C02": dict(
        category="exploration",
        text="Relational contract on compile_code (all option vectors agree with the source semantics and hence with each other), bounded: covering array of option vectors on generated programs, all 256 vectors in the thorough tier.",
        design_ref="6.C02", note="No function-level contract carries the property; bounded only. Trusted: reference machine and dialect.",
        technique="bounded native check of a relational contract on compile_code (stand-in; the verifier cannot reach the astroid walkers)"),
    "C05": dict(
        category="exploration",
        text="The label -> line-number loop of remove_labels (cut out of the real method on every run) is proved for texts of every length: the label-free text is exactly the non-label lines in order, every dropped label is mapped, and its number is the index of the first instruction line after its definition (loop invariant, ghost defining line, two lemmas; str operations as uninterpreted functions named after the operation). remove_unused_labels (all three loops, cut out of the real function) is proved never to remove a label that some line has among its tokens and to keep every other line in order. The substitution phase of remove_labels is regular-expression rewriting of text (outside SMT reach): bounded contract - every target resolves to one definition and the label-free output equals the token-wise substitution spec, on generated single- and multi-module programs.",
        design_ref="6.C05, 12.11", note="Level stays 'exploration' because the substitution phase of remove_labels and label naming in the code generator are bounded only; the proved obligations are listed separately in the evidence. Trusted: the token-wise substitution spec (bounded/props.py), machine tokeniser.",
        technique=TECH + " (loop contracts on the label map of remove_labels and on remove_unused_labels); bounded native contract check (stand-in) for the regular-expression phase and compile_code"),
    "C06": dict(
        category="exploration",
        text="The argument / result transport between handle_call, compile_function and handle_return is proved from the real address expressions and loop shapes for all argument counts (caller and callee slots agree, are distinct, miss the result cell, stay inside the stack; the callee's pop order is the reverse of the caller's push order; each access sits in the branch of its convention). Everything else is a bounded stand-in: shadow call stack on the reference machine - every executed return goes to the line after the call being served, the stack pointer at top-level yields is constant, effects agree with the source, for generated call graphs under both conventions, inlining and tail calls; add_ra_instructions on callee skeletons.",
        design_ref="6.C06, 12.11", note="Level stays 'exploration': return addresses (ra save / restore) and the call protocol as a whole are bounded only; the proved obligations are listed separately in the evidence. Trusted: spec/ic10_machine.py shadow call stack, LIFO push/pop.",
        technique=TECH + " (two-site lemma on the argument slots / pop order); bounded native contract check on a reference machine with shadow call stack (stand-in)"),
    "C07": dict(
        category="exploration",
        text="Region map on the reference machine: function regions are entered only by jal / tail-call jumps. The main-end fall-through is a recorded known finding; the remaining obligations keep reporting.",
        design_ref="6.C07", note="Bounded only.",
        technique="bounded native contract check on a reference machine with region map (stand-in)"),
    "C13": dict(
        category="exploration",
        text="Multi-module programs are compiled and executed against a reference semantics that runs each module in its own namespace; never-called library code must not change the instruction sequence.",
        design_ref="6.C13", note="Bounded only; relational whole-pipeline property.",
        technique="bounded native contract check (stand-in)"),
    "C17": dict(
        category="exploration",
        text="The statistics block of get_code (cut out of the real method on every run, the version-note statement abstracted to 'writes any text') is proved to compute num_lines / num_bytes / num_registers from the returned text by the property's formulas; the body of assign_registers' symbol loop is proved to add every register it hands out to the scope's used set; the union over scopes, and the formulas' agreement with an independent recount (lines, bytes with two-byte line ends, distinct r<N> tokens), are bounded: generated programs incl. state-only libraries, version-note vectors, and corner programs x all 256 option vectors.",
        design_ref="6.C17, 12.8", note="Level stays 'exploration' because completeness of used_registers (register_assignment) is bounded only; the proved obligations are listed separately in the evidence.",
        technique=TECH + " (block contract); bounded native contract check of compile_code as stand-in"),
    "C10": dict(
        category="proof",
        text="Compiler.compile is proved, by exception-flow VCs over its real source, to let no Exception escape and to return a result (pipeline calls modelled as opaque operations that may raise anything); compile_code itself is proved for every source text (str) and every options object / None: both loops of the directive scan are cut by invariants, no exception escapes, the caller's options object is not written and the value returned is the compiler's; verdict shape, error positions, time and leftover helper processes are checked on a corpus of arbitrary texts and editing histories (bounded part, not counted as proved).",
        design_ref="6.C10, 12.8", note="Assumptions listed in evidence (CompilerError.node invariant, SyntaxError attributes, BaseException outside the model, pass loop unrolled for two symbolic passes). eval_constexpr, sources given as a dict and options given as a dict are covered by the bounded corpus only.",
        technique=TECH + "; bounded corpus for the parts outside reach"),
    "C11": dict(
        category="other",
        text="Mechanical scans of the package AST (every write to module-level state, the constexpr memo key, the output-mode reset, every iteration over a set) must be classified in the sidecar with a lemma; request histories in one process are compared with fresh-process results under several hash seeds, options and sources are deep-snapshotted.",
        design_ref="6.C11", note="A deductive frame proof of compile_code is out of reach (ownership over astroid objects); scans over-approximate by name.",
        technique="contract-style frame obligations decided by syntactic scan + bounded native history check (stand-in)"),
    "C12": dict(
        category="exploration",
        text="The literal emitted for a @constexpr call is compared with calling the same function text directly in-process (HASH = signed CRC-32) over bodies x call texts x positions; the memo-key scan obligation is shared with C11.",
        design_ref="6.C12", note="Evaluation is delegated to a CPython child process: no deductive form; bounded only.",
        technique="bounded native contract check (stand-in) + syntactic scan obligation"),
    "C14": dict(
        category="proof",
        text="mod_daemon.process_input is proved over its real source (try/except/except/finally with returns inside try, request content modelled as arbitrary values whose every operation may raise): no exception escapes and exactly one reply line reaches the saved stdout per non-empty request; main()'s request loop is proved with a while-loop invariant and a variant over a ghost input of any length (process_input runs exactly once, in order, for every line before the first EXIT line or end of input, with the stripped text; the loop terminates); stdout-discipline scans; the real daemon process is run on request histories (bounded, not counted as proved).",
        design_ref="6.C14, 12.8", note="Assumed: compile_code returns a JSON-serialisable dict or raises (C10), json/base64/print/readline contracts listed in evidence. The __main__ wrapper (signal handlers, asyncio.run) is covered by the bounded process runs only.",
        technique=TECH + "; bounded runs of the real process"),
    "C15": dict(
        category="proof",
        text="The body of the directive loop (one tag) is proved equal to the property's normalisation for every tag string and every caller vector, including the frame (other options untouched); compile_code as a whole is proved to let no exception escape, to keep `options` an options object with boolean fields through both scan loops and to leave the caller's object unwritten; line filtering / splitting / last-one-wins and equality with the API call are bounded stand-ins with options observed by rebinding compiler.Compiler.",
        design_ref="6.C15, 12.8", note="str.strip / str.replace are uninterpreted functions shared by code and specification.",
        technique=TECH + "; bounded native check for the parts outside reach"),
    "C04": dict(
        category="exploration",
        text="assign_colors is PROVED on the real source for symbol lists of every length (two loop invariants of 10 + 9 clauses, ghost owner lists and slot fields, symbolic-length lists; overlapping lifetimes get different colours, every symbol is coloured) and, as an independent second encoding, executed symbolically for every list of n <= 5 (thorough: 7) symbols; the body of assign_registers' symbol loop is proved (colour c is the c-th register not blocked by a caller, within r0-r15, otherwise the out-of-registers error); get_loop_ancestor (an enclosing loop of the function is returned when there is one) and the lifetime of temporaries (the line range of the enclosing statement) are proved over ghost ancestor chains of any length. That line-interval lifetimes cover real liveness, and the call-graph blocking around the loop, are validated per compilation: an interprocedural liveness analysis over the virtual register names observed around the real assign_registers reports every definition that overwrites another live value's register (complete per program, independent of run-time values), next to the simulation check (a clobbered live value shows up as a wrong effect); both are bounded over generated programs, hence level 'exploration'.",
        design_ref="6.C04, 12.8, appendix A", note="sorted() is an assumed contract (ordering fact for the key the code passes); known findings (alias, nested-loop lifetime, transitive blocking, inlined return register) replayed every run.",
        technique=TECH + " (unbounded loop-invariant proof + K-bounded second encoding); bounded native contract check of compile_code as stand-in"),
    "C09": dict(
        category="proof",
        text="format_int (decision block), IC10Operand.__init__ and to_string{int} are proved against read-back specifications, IC10Instruction.to_string is proved to print indentation, opcode, output and inputs in order separated by single blanks (0..4 inputs), the fold tables' kind clauses and an exhaustive scan of literal opcodes against the ISA table are discharged; float literals and whole outputs are checked by bounded stand-ins (read-back of printed doubles, grammar check of generated programs' outputs).",
        design_ref="6.C09", note="Assumed library contracts for format()/str(); the small-magnitude float branch and whole outputs are bounded only; known findings (neg opcode, None operand, complex literal, >64-bit hex) replayed every run.",
        technique=TECH + "; bounded native checks for the parts outside reach"),
}
NA = {}


def main():
    checks = []
    for pid in ALL:
        if pid not in CHECKS:
            continue
        c = CHECKS[pid]
        checks.append({
            "property_id": pid,
            "quick_cmd": f"./check {pid} --tier quick",
            "thorough_cmd": f"./check {pid} --tier thorough",
            "evidence_file": f"evidence/{pid}.json",
            "replay_cmd_template": f"./check {pid} --replay {{path}}",
            "engine": "pyvc",
            "level_claimed": {"category": c["category"], "text": c["text"], "design_ref": c["design_ref"]},
            "level_note": c["note"],
            "technique": c["technique"],
        })
    na = [{"property_id": p, "reason": NA.get(p, "machinery not built yet (work in progress; see DESIGN.md section 11)")} for p in ALL if p not in CHECKS]
    m = {
        "version": 1,
        "setup_cmd": "./setup.sh",
        "hooks": {
            "guard": "PYTRAPIC_VERIF",
            "enable": "no source hooks: contracts are sidecars in /verif, wrappers are installed by rebinding module attributes inside the checking process",
            "baseline_off_cmd": "cd /repo && /venv/bin/python -m pytest -ra -q -p no:cacheprovider --timeout=900 --continue-on-collection-errors",
            "source_commits": [],
            "add_only": True,
        },
        "engines": [{"name": "pyvc", "path": "pyvc/", "serves_properties": sorted(CHECKS), "kind_free_text": "VC generator for a Python subset (ast -> z3/cvc5), sidecar contracts, native replay; bounded contract checks on an IC10 reference machine"}],
        "checks": checks,
        "not_applicable": na,
        "notes": "See DESIGN.md. Exit codes: 0 held, 1 violation, 2 undecided, 3 checker error.",
    }
    (ROOT / "MANIFEST.json").write_text(json.dumps(m, indent=1))
    print("checks:", [c["property_id"] for c in checks], "n/a:", len(na))


if __name__ == "__main__":
    main()
