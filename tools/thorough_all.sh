#!/bin/bash
# tools/thorough_all.sh [checks...]: run the thorough tier of every check once, print the summary line and exit code of each
cd "$(dirname "$0")/.."
[ -x .venv/bin/python ] || ./setup.sh >/dev/null 2>&1
for c in ${@:-C16 C18 C03 C08 C15 C14 C12 C10 C11 C17 C09 C04 C01 C02 C05 C06 C07 C13}; do
  t0=$(date +%s)
  out=$(nice -n 5 ./check $c --tier thorough 2>/dev/null | grep -E "^(VIOLATION|  failed|C[0-9]+ \[|CHECKER|UNDECIDED)" | tr '\n' ' ' | cut -c1-600)
  echo "$c ($(( $(date +%s) - t0 )) s) :: $out"
done
