"""Postconditions of compile_code evaluated on one generated program under several option vectors (bounded stand-ins).
One task yields, per property, the list of violated postconditions; every failure carries the program, the options and
what was observed, so that it can be replayed (./check Cxx --replay)."""
from __future__ import annotations

import re

from bounded import gen
from bounded import harness as H
from spec import ic10_machine as M

BASE = {"append_version": False}

# option vectors: a pairwise covering array over the 8 boolean options (every pair of options takes all 4 value
# combinations) plus the two vectors the repository's own suite uses
COVER16 = [0b00000000, 0b11111111, 0b01010101, 0b10101010, 0b00110011, 0b11001100, 0b00001111, 0b11110000,
           0b01100110, 0b10011001, 0b00111100, 0b11000011, 0b01011010, 0b10100101, 0b01101001, 0b10010110]
SUITE = [{"compact": False, "inline_functions": False, "append_version": False, "remove_labels": False},
         {"compact": True, "inline_functions": True, "append_version": False, "remove_labels": True}]


def vectors(kind):
    if kind == "default":
        return [dict(BASE)]
    if kind == "calls":
        return [dict(BASE), dict(BASE, inline_functions=False), dict(BASE, inline_functions=False, use_push_pop_functions=True),
                dict(BASE, inline_functions=False, tail_call_optimization=True), dict(BASE, use_push_pop_functions=True, tail_call_optimization=True),
                dict(BASE, inline_functions=False, compact=True, remove_labels=True), dict(BASE, inline_functions=False, compact=True)]
    if kind == "inline-only":
        # inlining stays on: a function with one call site is inlined, so no function region follows the main code
        return [dict(BASE), dict(BASE, compact=True), dict(BASE, original_code_as_comment=True), dict(BASE, generated_comments=False, remove_labels=True)]
    if kind == "tco":
        # tail-call optimisation with every calling convention / inlining choice (few vectors: more programs per second)
        t = dict(BASE, tail_call_optimization=True)
        return [dict(BASE), dict(t), dict(t, inline_functions=False), dict(t, use_push_pop_functions=True), dict(t, inline_functions=False, use_push_pop_functions=True)]
    if kind == "version":
        # the version note is appended to emitted text of every layout (comments on/off, source as comment, compact)
        v = {"append_version": True}
        return [dict(v), dict(v, generated_comments=False), dict(v, original_code_as_comment=True), dict(v, compact=True),
                dict(v, inline_functions=False), dict(v, generated_comments=False, original_code_as_comment=True, remove_labels=True)]
    if kind == "cover16":
        return [H.options_from_bits(b) for b in COVER16] + SUITE
    if kind == "all256":
        return [H.options_from_bits(b) for b in range(256)]
    if kind == "modules":
        # push/pop with library functions is a recorded known finding (C13-pushpop-library-exit): not in the explored vectors;
        # programs with equal function names in several modules are not explored under remove_labels (C05-prefix-names)
        return [dict(BASE), dict(BASE, inline_functions=False), dict(BASE, inline_functions=False, compact=True),
                dict(BASE, inline_functions=False, tail_call_optimization=True), dict(BASE, tail_call_optimization=True),
                dict(BASE, original_code_as_comment=True)]
    if kind == "modules-rl":
        return [dict(BASE), dict(BASE, remove_labels=True), dict(BASE, inline_functions=False), dict(BASE, inline_functions=False, compact=True, remove_labels=True)]
    if kind == "labels":
        # the two comment vectors: label lines / jumps that carry a trailing comment (seeded C05-agent5, C05-agent6)
        return [dict(BASE), dict(BASE, remove_labels=True), dict(BASE, inline_functions=False), dict(BASE, inline_functions=False, remove_labels=True),
                dict(BASE, inline_functions=False, original_code_as_comment=True), dict(BASE, inline_functions=False, original_code_as_comment=True, remove_labels=True)]
    raise ValueError(kind)


def function_labels(sources):
    """labels the transpiler gives to user functions (dotted qualified names)"""
    out = set()
    srcs = sources if isinstance(sources, dict) else {"": sources}
    alias = {}
    for m in re.finditer(r"^from\s+library\s+import\s+(.+)$", srcs.get("", ""), re.M):
        for part in m.group(1).split(","):
            bits = part.split()
            if len(bits) == 3 and bits[1] == "as":
                alias[bits[0]] = bits[2]
    for mod, text in srcs.items():
        mod = alias.get(mod, mod)
        for m in re.finditer(r"^[ \t]*def\s+([A-Za-z_][A-Za-z0-9_]*)\s*\(", text, re.M):
            name = (mod + "." if mod else "") + m.group(1)
            out.add(name.replace("_", "."))
    return out


def spec_remove_labels(labelled):
    """The property's own definition: replace each label (as a whole token) by the index of the instruction that follows it."""
    lines = labelled.split("\n")
    idx, kept, n = {}, [], 0
    for l in lines:
        t = M.tokenize(l)
        if len(t) == 1 and t[0].endswith(":"):
            idx.setdefault(t[0][:-1], n)
        else:
            kept.append(l)
            n += 1
    out = []
    for l in kept:
        code = M.split_comment(l)
        toks = M.tokenize(code)
        new = " ".join(str(idx[t]) if (i > 0 and t in idx) else t for i, t in enumerate(toks))
        out.append(new)
    return out, idx


def norm_line(l):
    return " ".join(M.tokenize(l))


def check_labels(sources, labelled, unlabelled):
    """C05 on one program: (i) jump targets resolve to exactly one definition, (ii) label-free output == spec substitution"""
    fails = []
    p = M.Program(labelled)
    for name, defs in p.label_defs.items():
        if len(defs) > 1:
            fails.append(f"label {name!r} defined {len(defs)} times (lines {defs})")
    for i, t in enumerate(p.code):
        if not t or p.is_label(i):
            continue
        op = t[0]
        if op in M.ISA:
            kinds = ([None] if M.ISA[op][0] else []) + M.ISA[op][1]
            for tok, k in zip(t[1:], kinds):
                if k == "target" and not (tok in M.REGS or re.fullmatch(r"-?\d+", tok)):
                    if tok not in p.labels:
                        fails.append(f"line {i}: {' '.join(t)}: target {tok!r} is not a defined label")
    if unlabelled is not None:
        want, idx = spec_remove_labels(labelled)
        got = [norm_line(l) for l in unlabelled.split("\n")] if unlabelled else []
        if got != want:
            for k in range(max(len(got), len(want))):
                a = got[k] if k < len(got) else None
                b = want[k] if k < len(want) else None
                if a != b:
                    fails.append(f"label-free output line {k}: {a!r}, expected {b!r} (labels replaced token-wise by instruction index)")
                    break
    return fails


def check_calls(m):
    """C06 on one machine run: every executed return goes to the instruction after the call being served; sp restored"""
    fails = []
    for ev in m.call_events:
        if ev[0] == "badret":
            fails.append(f"return at line {ev[1]} went to line {ev[2]}, the call being served expects line {ev[3]}")
        elif ev[0] == "ret-without-call":
            fails.append(f"'j ra' at line {ev[1]} executed with no call in progress (went to line {ev[2]})")
    # the stack pointer at a top-level yield (no call in progress) is the same in every tick: calls leave nothing behind
    top = [sp for sp, depth in m.sp_at_yield if depth == 0]
    if len(set(top)) > 1:
        fails.append(f"stack pointer at top-level yields drifts: {top[:4]} (a call left values on the stack or consumed too many)")
    return fails


def check_regions(sources, code, env):
    """C07 on the labelled output: function regions are entered only through calls."""
    fl = function_labels(sources)
    p = M.Program(code)
    starts = sorted(i for n, i in p.labels.items() if n in fl)
    if not starts:
        return [], None
    main_end = starts[0]
    region_of = {}
    for k, s in enumerate(starts):
        e = starts[k + 1] if k + 1 < len(starts) else len(p.code)
        for i in range(s, e):
            region_of[i] = s
    m = M.Machine(p, env, max_steps=6000, max_ticks=3)
    fails = []
    info = {"main_end_reached": False}
    # single-step with transition observation
    n = len(p.code)
    while True:
        if m.pc >= n or m.pc < 0 or m.steps >= m.max_steps:
            break
        prev = m.pc
        toks = p.code[prev]
        m.steps += 1
        jumped = False
        if not toks or p.is_label(prev):
            nxt = prev + 1
        else:
            try:
                r = m.step(toks)
            except (M.MachineError, ZeroDivisionError, OverflowError, ValueError):
                break
            if m.status is not None:
                break
            nxt = prev + 1 if r is None else r
            jumped = r is not None
        if nxt in region_of and nxt == region_of[nxt] and nxt == prev + 1 and not jumped:
            # sequential entry into a function label line
            if region_of.get(prev) is None:
                info["main_end_reached"] = True  # known finding C07-main-falls-through
                info["effects_at_main_end"] = len(m.trace)
                break
            fails.append(f"function region starting at line {nxt} ({p.lines[nxt].strip()}) entered by falling through from line {prev} ({p.lines[prev].strip()}) of another function")
            break
        elif nxt in region_of and region_of.get(prev) != region_of[nxt] and nxt != region_of[nxt]:
            op = toks[0] if toks else ""
            if not (op == "j" and toks[1] == "ra") and region_of.get(prev) is None:
                fails.append(f"jump from main line {prev} into the middle of a function region (line {nxt})")
                break
        m.pc = nxt
    if not fails:
        # the exit sequence of a function ('j ra') executed from the main code with no call in progress: function code
        # that was laid out inside the main code and entered without a call
        for ev in m.call_events:
            if ev[0] == "ret-without-call" and region_of.get(ev[1]) is None:
                fails.append(f"'j ra' at main-code line {ev[1]} executed with no call in progress: code of a function body sits in the main code and was entered without a call")
                break
    return fails, info


def check_stats(res):
    code = res["code"]
    fails = []
    lines = code.split("\n") if code != "" else []
    if res.get("num_lines") != len(lines):
        fails.append(f"num_lines={res.get('num_lines')} but code has {len(lines)} lines")
    nbytes = len(code.encode("utf-8")) + max(0, len(lines) - 1) if False else len(code) + max(0, len(lines) - 1)
    if res.get("num_bytes") != nbytes:
        fails.append(f"num_bytes={res.get('num_bytes')} but the code with two-byte line ends has {nbytes} characters")
    used = set()
    for l in lines:
        for t in M.tokenize(l)[1:]:
            if re.fullmatch(r"r(\d|1[0-5])", t):
                used.add(t)
    if res.get("num_registers") != len(used):
        fails.append(f"num_registers={res.get('num_registers')} but the code uses {len(used)} distinct registers {sorted(used)}")
    return fails


def full_task(task):
    """task = (seed, gen kwargs, vector kind, want)  -> record with per-property failure lists"""
    seed, gkw, vkind, want = task
    if "sources" in gkw:
        sources, feats = gkw["sources"], gkw.get("features", [])
    elif gkw.get("modules"):
        from bounded import genmod

        sources, feats = genmod.generate(seed, **{k: v for k, v in gkw.items() if k != "modules"})
    else:
        sources, feats = gen.generate(seed, **gkw)
    rec = {"seed": seed, "features": feats, "fails": {}, "status": "ok", "n_vectors": 0, "gen": {k: v for k, v in gkw.items() if k != "sources"}}
    main_src = sources if isinstance(sources, str) else sources[""]
    env = H.make_env(seed, H.consts_of(sources))
    ref_trace, ref_status = H.run_dialect(sources, env)
    semantic = ref_trace is not None
    if not semantic:
        rec["status"] = "outside"
        rec["detail"] = ref_status
        if not ({"C09", "C17", "C05", "C04"} & set(want)):
            return rec
    rec["effects"] = len(ref_trace) if semantic else 0
    outs = []
    for opts in vectors(vkind):
        res = H.compile_program(sources, opts)
        outs.append((opts, res))
    n_ok = sum(1 for _, r in outs if "code" in r)
    rec["n_vectors"] = len(outs)
    rec["n_compiled"] = n_ok
    if n_ok == 0:
        rec["status"] = "compile-error"
        rec["detail"] = outs[0][1]["error"].get("description", "")[:200]
        return rec

    def fail(prop, what, opts, res=None, **extra):
        d = {"what": what, "options": opts, "sources": sources}
        if res is not None and "code" in res:
            d["code"] = res["code"]
        d.update(extra)
        rec["fails"].setdefault(prop, []).append(d)
        if rec["status"] != "outside":
            rec["status"] = "fail"

    if 0 < n_ok < len(outs) and "C02" in want:
        errs = {r["error"].get("description", "")[:80] for _, r in outs if "error" in r}
        # out-of-registers is allowed to depend on layout options (inlining changes register pressure)
        if not all("Running out of registers" in e for e in errs):
            bad = next((o, r) for o, r in outs if "error" in r and "Running out of registers" not in r["error"].get("description", ""))
            fail("C02", f"compiles under {n_ok} of {len(outs)} option vectors; error under this one: {bad[1]['error'].get('description', '')[:200]}", bad[0])
    first = None
    for opts, res in outs:
        if "code" not in res:
            continue
        code = res["code"]
        if "C09" in want:
            r = H.check_loadable(code)
            if r:
                fail("C09", r, opts, res)
        if "C17" in want:
            for r in check_stats(res):
                fail("C17", r, opts, res)
        if not semantic:
            continue
        m = H.run_machine(code, env)
        d = H.compare_traces(m.trace, m.status, ref_trace, ref_status)
        if d:
            if "C01" in want and opts == vectors("default")[0]:
                fail("C01", d, opts, res, machine_status=m.status)
            if "C02" in want:
                fail("C02", "differs from the source semantics (other vectors agree with it): " + d if first is not None else d, opts, res, machine_status=m.status)
        elif first is None:
            first = (opts, res)
        if d and "C07" in want and gkw.get("terminating") and ref_status == "end" and (len(m.trace) > len(ref_trace) or m.status in ("steps", "ticks")) \
                and all(H.same_event(a, b) for a, b in zip(m.trace, ref_trace)):
            # the source's top-level code ended after len(ref_trace) effects; the chip went on (more effects, or still running)
            fail("C07", f"after the top-level script ended ({len(ref_trace)} effects) the chip went on: {len(m.trace)} effects, final status {m.status}", opts, res)
        if "C06" in want:
            for r in check_calls(m):
                fail("C06", r, opts, res)
            if d and any(f"{n}(" in main_src for n in ("def ",)) and m.status.startswith("error") and "stack address" in m.status:
                fail("C06", "stack pointer ran out of range: " + m.status, opts, res)
        if ("C07" in want or "C07a" in want) and not opts.get("remove_labels"):
            fs, info = check_regions(sources, code, env)
            for r in fs:
                fail("C07", r, opts, res)
            if info and info.get("main_end_reached"):
                rec.setdefault("main_end", []).append({"options": opts, "effects_at_main_end": info.get("effects_at_main_end")})
                rec["fails"].setdefault("C07a", []).append({"what": "main code reaches its end and falls through into the first function region", "options": opts, "sources": sources, "code": code})
    if "C04" in want:
        # allocation validator: liveness over the virtual registers of the instruction list the real assign_registers gets
        from bounded import liveness

        for opts in vectors(vkind)[:3]:
            try:
                res2, rows = liveness.capture(sources, opts)
            except Exception:  # the compilation itself is judged by the other postconditions
                continue
            if rows is None or "code" not in res2:
                continue
            rec["n_liveness"] = rec.get("n_liveness", 0) + 1
            probs = liveness.analyse(rows)
            if probs:
                fail("C04", "two simultaneously live values share a register: " + probs[0], opts, res2)
                break
    if "C05" in want:
        by = {}
        for opts, res in outs:
            if "code" in res:
                key = tuple(sorted((k, v) for k, v in opts.items() if k != "remove_labels"))
                by.setdefault(key, {})[bool(opts.get("remove_labels"))] = (opts, res)
        for key, pair in by.items():
            if False in pair:
                o, r = pair[False]
                un = pair.get(True)
                for f in check_labels(sources, r["code"], un[1]["code"] if un else None):
                    fail("C05", f, un[0] if un and "label-free" in f else o, r, unlabelled=un[1]["code"] if un else None)
    return rec


def unused_library_task(task):
    """C13 clause: a library function that is never called, and a library's `if __name__ == "__main__":` block,
    contribute no instructions: the output equals the output for the library without them."""
    from bounded import genmod

    seed, opts = task
    sources, feats = genmod.generate(seed, with_unused=True)
    rec = {"seed": seed, "features": feats, "status": "ok", "fails": {}}
    stripped = {}
    changed = False
    for k, text in sources.items():
        if k == "":
            stripped[k] = text
            continue
        t2 = text.replace("def never_called(p0):\n    db.Lock = p0 + 1\n    return p0\n\n", "")
        t2 = t2.replace('if __name__ == "__main__":\n    db.Open = 77\n    d1.Open = total\n', "")
        changed = changed or t2 != text
        stripped[k] = t2
    a = H.compile_program(sources, opts)
    b = H.compile_program(stripped, opts)
    if "code" not in a or "code" not in b:
        rec["status"] = "compile-error" if ("code" not in a and "code" not in b) else "fail"
        if rec["status"] == "fail":
            rec["fails"]["C13"] = [{"what": "compiles only with / only without the never-called library code: " + str((a.get("error") or b.get("error"))["description"])[:200],
                                    "options": opts, "sources": sources}]
        return rec
    rec["n_compiled"] = 2
    rec["effects"] = 1
    def canon(code):
        """instruction sequence with labels renamed by order of first appearance (label numbering is layout, not an instruction)"""
        p = M.Program(code)
        names = {}
        out = []
        for t in p.code:
            row = []
            for i, tok in enumerate(t):
                base = tok[:-1] if (len(t) == 1 and tok.endswith(":")) else tok
                if base in p.labels:
                    names.setdefault(base, f"L{len(names)}")
                    tok = names[base] + (":" if tok.endswith(":") and len(t) == 1 else "")
                row.append(tok)
            out.append(" ".join(row))
        return out

    if canon(a["code"]) != canon(b["code"]):
        la, lb = canon(a["code"]), canon(b["code"])
        k = next((i for i in range(min(len(la), len(lb))) if la[i] != lb[i]), min(len(la), len(lb)))
        rec["status"] = "fail"
        rec["fails"]["C13"] = [{"what": f"never-called library code changes the output (first difference at line {k}: {la[k] if k < len(la) else None!r} vs {lb[k] if k < len(lb) else None!r}; {len(la)} vs {len(lb)} lines)",
                                "options": opts, "sources": sources, "code": a["code"]}]
    return rec
