"""Bounded stand-ins (never counted as proved): the contract of compile_code is evaluated natively on generated
programs.  Both sides are executed: the emitted IC10 on the reference machine, the source under the dialect."""
from __future__ import annotations

import hashlib
import math
import os
import re
import struct

from spec import dialect, ic10_machine
from spec.ic10_isa import ISA

OPTION_NAMES = ["original_code_as_comment", "generated_comments", "inline_functions", "remove_labels", "append_version",
                "compact", "tail_call_optimization", "use_push_pop_functions"]

POOL = [0.0, 1.0, -1.0, 0.5, 2.0, 3.0, 5.0, 10.0, 100.0, -2.5, 7.0, 0.25, 42.0, 1000.0, -100.0, 4.0, 6.0, 8.0, 9.0, 20.0, 50.0, 1.5]


def make_env(seed, extra=()):
    """env(devkey, what, tick) -> finite double; deterministic; values from a boundary pool plus program constants +-1."""
    pool = POOL + [float(x) for x in extra]

    def env(key, what, tick):
        h = hashlib.blake2b(repr((seed, key, what, tick)).encode(), digest_size=8).digest()
        n = struct.unpack(">Q", h)[0]
        if what == ("present",):
            return float(n % 2)
        return pool[n % len(pool)]

    return env


def structures():
    """(singular, plural singleton, prefab name) of the structure classes, from the working tree (names only)."""
    from stationeers_pytrapic import structures_generated as SG
    from stationeers_pytrapic import types as T

    out = []
    plural = {}
    for n, c in vars(SG).items():
        if isinstance(c, type) and issubclass(c, T._BaseStructures) and isinstance(vars(c).get("_prefab_name"), str):
            plural[c._prefab_name] = n.lstrip("_")
    for n, c in vars(SG).items():
        if isinstance(c, type) and issubclass(c, T._BaseStructure) and isinstance(vars(c).get("_prefab_name"), str) and c._prefab_name in plural:
            out.append((n, plural[c._prefab_name], c._prefab_name))
    return out


_STRUCT = None


def get_structures():
    global _STRUCT
    if _STRUCT is None:
        _STRUCT = structures()
    return _STRUCT


def options_from_bits(bits):
    return {n: bool(bits >> i & 1) for i, n in enumerate(OPTION_NAMES)}


def compile_program(sources, opts=None):
    from stationeers_pytrapic.compiler import CompileOptions, compile_code

    o = CompileOptions(**(opts or {}))
    src = dict(sources) if isinstance(sources, dict) else sources
    return compile_code(src, o)


def consts_of(sources):
    text = sources if isinstance(sources, str) else "\n".join(sources.values())
    vals = set()
    for m in re.finditer(r"(?<![\w.])(\d+(?:\.\d+)?)", text):
        v = float(m.group(1))
        if v < 1e6:
            vals.update((v, v + 1, v - 1))
    return sorted(vals)[:40]


def close(a, b):
    if a == b:
        return True
    if isinstance(a, float) and isinstance(b, float):
        return math.isclose(a, b, rel_tol=1e-12, abs_tol=1e-300)
    return False


def same_event(x, y):
    if len(x) != len(y) or x[0] != y[0]:
        return False
    return all(close(p, q) if isinstance(p, float) or isinstance(q, float) else p == q for p, q in zip(x[1:], y[1:]))


def compare_traces(t1, s1, t2, s2):
    """-> None if consistent, else description.  A side stopped by its step budget only has to agree on the common prefix."""
    n = min(len(t1), len(t2))
    for i in range(n):
        if not same_event(t1[i], t2[i]):
            return f"effect #{i}: {t1[i]} vs {t2[i]}"
    budget = ("steps",)
    if s1 == "steps" and s2 in ("ticks", "end", "hcf") and len(t1) <= len(t2):
        # the reference finished; the emitted program spent its whole step budget (several thousand instructions for a
        # program of a few dozen lines) without getting there: it does not make progress
        return f"emitted program exhausts the step budget after {len(t1)} effects; the source finishes with {len(t2)} effects ({s2})"
    if len(t1) != len(t2):
        longer_is_1 = len(t1) > len(t2)
        short_status = s2 if longer_is_1 else s1
        if short_status in budget:
            return None
        return f"effect count {len(t1)} ({s1}) vs {len(t2)} ({s2}); first extra: {(t1 if longer_is_1 else t2)[n]}"
    if s1 != s2 and s1 not in budget and s2 not in budget:
        if {s1, s2} <= {"end", "hcf", "main-end"}:
            return None
        return f"same effects but final status {s1} vs {s2}"
    return None


def run_machine(code, env, max_ticks=3, max_steps=20000, main_end=None):
    m = ic10_machine.Machine(code, env, max_steps=max_steps, max_ticks=max_ticks)
    m.main_end = main_end
    return m.run()


def run_dialect(sources, env, max_ticks=3):
    try:
        return dialect.execute(sources, env, get_structures(), max_ticks=max_ticks)
    except dialect.SimError as e:
        return None, f"outside-fragment: {e}"
    except (ZeroDivisionError, OverflowError, ValueError, IndexError, TypeError, NameError, UnboundLocalError) as e:
        return None, f"outside-fragment: {type(e).__name__}: {e}"


# ------------------------------------------------------------------------------------------- C09 grammar
REG = re.compile(r"r(\d|1[0-5])|sp|ra")
NUM = re.compile(r"-?\d+(\.\d+)?|\$[0-9A-F]+|HASH\(\"[^\"]*\"\)|STR\(\"[^\"]*\"\)")
IDENT = re.compile(r"[A-Za-z_][A-Za-z0-9_.]*")
PY_SPELLINGS = re.compile(r"^(None|True|False|nan|inf|-inf)$|__register\.|^<|object at 0x|\(.*j\)$|^\[|^\(|^\{")


def check_line(line, labels, aliases, defines):
    """-> None | reason why `line` is not loadable IC10 (C09)"""
    toks = ic10_machine.tokenize(line)
    if not toks:
        return "empty line" if line.strip() == "" else None  # comment-only line
    if len(toks) == 1 and toks[0].endswith(":"):
        return None if IDENT.fullmatch(toks[0][:-1]) else f"bad label {toks[0]!r}"
    op, args = toks[0], toks[1:]
    if op not in ISA:
        return f"unknown opcode {op!r}"
    has_out, kinds = ISA[op]
    want = len(kinds) + (1 if has_out else 0)
    if len(args) != want:
        return f"{op} takes {want} operands, has {len(args)}"
    allk = (["reg"] if has_out else []) + kinds
    for tok, k in zip(args, allk):
        if PY_SPELLINGS.search(tok):
            return f"operand {tok!r} is a Python spelling / placeholder"
        if re.fullmatch(r"\$[0-9A-F]+", tok) and int(tok[1:], 16) >= 2**63:
            return f"hex literal {tok!r} does not fit a 64-bit integer"
        if re.fullmatch(r"-?\d+", tok) and abs(int(tok)) >= 2**63:
            return f"integer literal {tok!r} does not fit a 64-bit integer"
        if k == "reg":
            if not (REG.fullmatch(tok) or tok in aliases):
                return f"output operand {tok!r} is not a register"
        elif k == "name":
            if not IDENT.fullmatch(tok):
                return f"bad name {tok!r}"
        elif k in ("dev", "regdev"):
            if not (re.fullmatch(r"d[0-5]|db", tok) or REG.fullmatch(tok) or tok in aliases or NUM.fullmatch(tok) or tok in defines):
                return f"device operand {tok!r}"
        else:
            ok = (REG.fullmatch(tok) or NUM.fullmatch(tok) or tok in aliases or tok in defines or tok in labels
                  or tok in ic10_machine.NAMES or tok in ic10_machine.QUALIFIED)
            if not ok:
                return f"operand {tok!r} is neither register, number, known name nor label"
    return None


def check_loadable(code):
    p = ic10_machine.Program(code)
    aliases, defines = set(), set()
    for t in p.code:
        if len(t) == 3 and t[0] == "alias":
            aliases.add(t[1])
        if len(t) == 3 and t[0] == "define":
            defines.add(t[1])
    noted = [i for i, line in enumerate(p.lines) if "Generated by PyTrapIC" in line]
    if len(noted) > 1:
        return f"the version note appears on {len(noted)} lines"
    for i in noted:
        line = p.lines[i]
        code = ic10_machine.split_comment(line)
        if "Generated by PyTrapIC" in code:
            return f"line {i}: the version note is not inside a trailing comment: {line!r}"
        if len(line) > 90:
            return f"line {i}: the version note makes the line {len(line)} characters long (limit 90): {line!r}"
    for i, line in enumerate(p.lines):
        r = check_line(line, p.labels, aliases, defines)
        if r:
            return f"line {i}: {r}: {line!r}"
    return None
