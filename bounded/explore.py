"""Pool runner for the bounded contract checks: every task compiles generated programs with the REAL compile_code
(imported from the working tree) and evaluates postconditions on the reference machine / dialect."""
from __future__ import annotations

import multiprocessing as mp
import os
import time
import traceback

from bounded import gen
from bounded import harness as H


def _init():
    # workers import the package from the working tree once
    import stationeers_pytrapic.compiler  # noqa: F401


def _call(args):
    fn, task = args
    try:
        return fn(task)
    except BaseException:
        return {"task": task, "status": "checker-crash", "detail": traceback.format_exc()[-1500:]}


def run_pool(fn, tasks, budget_s, jobs=None):
    """-> (records, n_tasks_done, timed_out)"""
    jobs = jobs or min(16, os.cpu_count() or 4)
    t0 = time.time()
    out = []
    ctx = mp.get_context("fork")
    timed_out = False
    # workers are recycled: the package keeps every parsed module alive (astroid's cache), a worker that compiles
    # thousands of programs would otherwise grow by gigabytes in the thorough tiers
    with ctx.Pool(jobs, initializer=_init, maxtasksperchild=40) as pool:
        it = pool.imap_unordered(_call, [(fn, t) for t in tasks], chunksize=4)
        for rec in it:
            out.append(rec)
            if time.time() - t0 > budget_s:
                timed_out = True
                pool.terminate()
                break
    return out, len(out), timed_out


DEFAULT_OPTS = {"append_version": False}


def simulate_task(task):
    """contract compile_code#simulates: the emitted program and the source have the same effect trace.
    task = (seed, gen kwargs, options dict)"""
    seed, gkw, opts = task
    src, feats = gen.generate(seed, **gkw)
    rec = {"seed": seed, "features": feats, "options": opts, "gen": gkw}
    res = H.compile_program(src, opts)
    if "error" in res:
        rec.update(status="compile-error", detail=res["error"].get("description", "")[:300])
        return rec
    env = H.make_env(seed, H.consts_of(src))
    t2, s2 = H.run_dialect(src, env)
    if t2 is None:
        rec.update(status="outside", detail=s2)
        return rec
    m = H.run_machine(res["code"], env)
    d = H.compare_traces(m.trace, m.status, t2, s2)
    rec["effects"] = len(t2)
    rec["lines"] = res.get("num_lines")
    if d:
        rec.update(status="mismatch", detail=d, source=src, code=res["code"], machine_status=m.status, dialect_status=s2)
    else:
        rec.update(status="ok")
    return rec
