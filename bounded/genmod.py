"""Generator of programs split over the main file and library modules (C13, also C05 / C17 shapes).

  main:     from library import <m> [as alias], ...;  calls alias.f(..)
  library:  one register-backed module-level variable, functions (optionally calling functions of the same
            module), an `if __name__ == "__main__":` block with an effect (must contribute nothing) and,
            optionally, a function that is never called (must contribute no instructions)

Equal names are used on purpose in different modules (functions `step`, `update`, globals `total`)."""
from __future__ import annotations

import random

from bounded.gen import Gen

MODNAMES = ["tank", "pump", "ctl", "aux"]
FN = ["step", "update", "limit", "mix"]


def library(seed, modname, with_unused, leaf_only, sibling_tail=False):
    g = Gen(seed, calls_focus=True)
    g.tailcall_p = 0.45 if not sibling_tail else 1.0  # library functions handing over to a sibling of their module
    g.globals = ["total"]
    lines = ["from stationeers_pytrapic.symbols import *", "", "fur = Furnace(d2)", "sens = DaylightSensor(d3)", "heat = WallHeater(d1)", f"total = {g.r.choice([0, 1, 5])}"]
    made = []
    nf = g.r.randrange(1, 3) if not sibling_tail else 2
    kind = g.r.random() < 0.6
    for name in g.r.sample(FN, nf):
        nargs = g.r.randrange(0, 3)
        returns = g.r.random() < 0.6 if not sibling_tail else kind
        body = g.function(name, nargs, returns, [] if leaf_only else list(made))
        made.append((name, nargs, returns, True))
        lines += body + [""]
    if with_unused:
        lines += ["def never_called(p0):", "    db.Lock = p0 + 1", "    return p0", ""]
    lines += ['if __name__ == "__main__":', "    db.Open = 77", "    d1.Open = total"]
    return "\n".join(lines) + "\n", made, sorted(g.features)


def generate(seed, with_unused=True, leaf_only=False, collide=True, state_only=False, sibling_tail=False):
    """sibling_tail: every library has two functions, the second ends in a call of the first (which the main file does not
    call), the main file calls the second twice and owns a function with the first one's name"""
    if state_only:
        return generate_state_only(seed)
    r = random.Random(seed)
    nmods = r.randrange(1, 3)
    mods = r.sample(MODNAMES, nmods)
    sources = {}
    feats = {"modules:%d" % nmods}
    imports, handles = [], []
    for k, m in enumerate(mods):
        text, made, f = library(seed * 7 + k, m, with_unused and r.random() < 0.5, leaf_only, sibling_tail)
        sources[m] = text
        feats.update(f)
        if r.random() < 0.4:
            alias = m[:2] + "x"
            imports.append(f"{m} as {alias}")
            handles.append((alias, made))
            feats.add("alias")
        else:
            imports.append(m)
            handles.append((m, made))
    g = Gen(seed * 13 + 5, calls_focus=True)
    g.globals = ["total"]
    main = ["from stationeers_pytrapic.symbols import *", f"from library import {', '.join(imports)}", "", "fur = Furnace(d2)", "sens = DaylightSensor(d3)", "heat = WallHeater(d1)", "total = 3"]
    # a main function with a name that also exists in a library
    own = []
    if sibling_tail or r.random() < 0.6:
        # equal function names in main and library collide under remove_labels (known finding C05-prefix-names)
        name = r.choice(FN) if collide else r.choice(["calc", "scale", "check"])
        sib = [f[0] for m in mods for f in handles[mods.index(m)][1] if any(f"{f[0]}(" in l and not l.startswith("def ") for l in sources[m].split("\n"))]
        if collide and sib and (sibling_tail or r.random() < 0.6):
            name = r.choice(sib)  # the name of a library function that is called from inside its library
        body = g.function(name, 1, True, [])
        own.append((name, 1, True, True))
        main += body + [""]
        feats.add("name-collision")
    main.append("while True:")
    vars_ = ["total"]
    body = []
    for h, made in handles:
        text = sources[[m for m in mods if h in (m, m[:2] + "x")][0]]
        for f in made:
            # a function that a sibling of its module already calls is not always called from the main file as well
            # (it then has a single call site inside the library)
            inner = any(f"{f[0]}(" in l and not l.startswith("def ") for l in text.split("\n"))
            if inner and (sibling_tail or r.random() < 0.5):
                continue
            args = ", ".join(g.arg(vars_, 1) for _ in range(f[1]))
            body.append(f"    db.Setting = {h}.{f[0]}({args})" if f[2] else f"    {h}.{f[0]}({args})")
            if sibling_tail or r.random() < 0.5:
                args = ", ".join(g.arg(vars_, 1) for _ in range(f[1]))
                body.append(f"    d1.Setting = {h}.{f[0]}({args})" if f[2] else f"    {h}.{f[0]}({args})")
    for f in own:
        body.append(f"    d1.On = {f[0]}({g.arg(vars_, 1)})")
        body.append(f"    db.On = {f[0]}({g.arg(vars_, 1)})")
        body.append("    total = total + 1")
    r.shuffle(body)
    main += body + ["    db.Mode = total", "    yield_()"]
    sources[""] = "\n".join(main) + "\n"
    return sources, sorted(feats)


def generate_state_only(seed):
    """libraries that keep state in module-level variables and whose functions own no local register variable;
    the main file has no function either (every allocated register belongs to a module scope)"""
    r = random.Random(seed)
    g = Gen(seed, calls_focus=True)
    mods = r.sample(MODNAMES, r.randrange(1, 3))
    sources, calls = {}, []
    for m in mods:
        nv = r.randrange(1, 3)
        names = ["total", "count"][:nv]
        # run-time initialisation at the library's top level, sometimes with several temporaries (more than its functions need)
        init = r.choice(["d0.Setting", "d2.Charge", "5", "(d0.Setting + d2.Charge) * (d1.On + 3)", "((d0.Setting + 1) * (d2.Charge + 2)) - ((d1.On + 3) * (d3.Ratio + 4))"])
        lines = ["from stationeers_pytrapic.symbols import *", "", f"{names[0]} = {init}"]
        if nv > 1:
            lines.append(f"{names[1]} = {names[0]} * 2")
            lines.append(f"d1.Mode = {names[1]}")
        # no temporaries inside the function: every register of this program belongs to a module scope
        lines += ["def bump():", f"    global {', '.join(names)}"] + [f"    {n} = {n} + {r.randrange(1, 4)}" for n in names] + [f"    db.{r.choice(['Setting', 'On'])} = {names[-1]}", ""]
        sources[m] = "\n".join(lines) + "\n"
        calls.append(f"    {m}.bump()")
    main = ["from stationeers_pytrapic.symbols import *", f"from library import {', '.join(mods)}", ""]
    if r.random() < 0.5:
        main.append("mine = 2")
        calls.append("    mine = mine + d0.Setting")
        calls.append("    d1.Setting = mine")
    main += ["while True:"] + calls + ["    yield_()"]
    sources[""] = "\n".join(main) + "\n"
    return sources, ["modules:%d" % len(mods), "state-only"]
