"""Runs the bounded postcondition tasks for one property and turns the records into obligations of kind 'bounded'
(never counted as proved), known-finding replays and evidence counts."""
from __future__ import annotations

import hashlib
import json
import time

from bounded import explore as E
from bounded import props as P
from pyvc.report import HELD, VIOLATED, Ob, load_known_findings

CLAUSE = {
    "C01": "compiler.compile_code#emitted_code_simulates_source",
    "C02": "compiler.compile_code#all_option_vectors_agree",
    "C04": "compiler.compile_code#no_live_value_overwritten",
    "C05": "compiler.compile_code#jumps_resolve_and_label_free_output_matches",
    "C06": "compiler.compile_code#returns_go_to_the_serving_call_site",
    "C07": "compiler.compile_code#function_regions_entered_only_by_calls",
    "C09": "compiler.compile_code#output_is_loadable_ic10",
    "C13": "compiler.compile_code#modules_behave_like_merged_source",
    "C17": "compiler.compile_code#statistics_describe_the_code",
}


def run_bounded(rep, prop, configs, budget_s, seed, want=None, clause=None):
    """configs: [(label, gen kwargs, vector kind, number of programs)]"""
    want = want or [prop]
    clause = clause or CLAUSE[prop]
    tasks = []
    for label, gkw, vkind, n in configs:
        base = seed * 1_000_003 + (int(hashlib.sha1(label.encode()).hexdigest()[:6], 16) % 100_000) * 1000
        tasks += [((i + 0.5) / n, len(tasks) + i, (base + i, gkw, vkind, want)) for i in range(n)]
    # interleaved: whatever part of the list fits the time budget covers every configuration proportionally
    tasks = [t for _, _, t in sorted(tasks, key=lambda x: (x[0], x[1]))]
    t0 = time.time()
    recs, done, timed_out = E.run_pool(P.full_task, tasks, budget_s)
    status = {}
    for r in recs:
        status[r["status"]] = status.get(r["status"], 0) + 1
    crashes = [r for r in recs if r["status"] == "checker-crash"]
    for c in crashes[:3]:
        rep.crash(f"bounded task crashed: {c['detail']}")
    key = {"C04": "C02"}.get(prop, prop)  # a clobbered live value is also observed as a difference of effects
    for r in recs:
        if key != prop and r.get("fails", {}).get(key):
            r["fails"].setdefault(prop, [])
            r["fails"][prop] += r["fails"][key]
    fails = [r for r in recs if r.get("fails", {}).get(prop)]
    ran = [r for r in recs if r["status"] in ("ok", "fail")]
    nontrivial = {(tuple(r["features"]), r.get("effects")) for r in ran if r.get("effects", 0) >= 1}
    rep.bounded["evaluations"] += sum(r.get("n_compiled", 0) for r in ran)
    rep.bounded["distinct_nontrivial"] += len(nontrivial)
    rep.bounded["rule"] = ("programs from the seeded grammar (bounded/gen.py) compiled by the real compile_code under the listed option vectors; "
                           "evaluations = successful compilations executed on the reference machine; non-trivial = at least one externally visible effect "
                           "in the reference trace; distinct by (feature set, number of effects)")
    rep.bounded.setdefault("programs", 0)
    rep.bounded["programs"] += len(recs)
    rep.bounded.setdefault("status_counts", {})
    for k, v in status.items():
        rep.bounded["status_counts"][k] = rep.bounded["status_counts"].get(k, 0) + v
    rep.bounded["configs"] = rep.bounded.get("configs", []) + [{"label": l, "gen": g, "vectors": v, "programs": n} for l, g, v, n in configs]
    rep.bounded["budget_exhausted"] = bool(timed_out)
    for r in ran[:3]:
        rep.samples.append({"seed": r["seed"], "features": r["features"], "effects": r.get("effects"), "vectors_compiled": r.get("n_compiled")})
    bound = f"{len(recs)} generated programs ({status}), option vectors per config: {[c[2] for c in configs]}"
    if not fails:
        rep.add(Ob(clause, HELD, kind="bounded", backend="native", bound=bound, time_s=time.time() - t0, target="compiler.compile_code",
                   detail={"programs_executed": len(ran)}))
    else:
        seen = set()
        for r in sorted(fails, key=lambda r: r["seed"]):
            f = r["fails"][prop][0]
            sig = f["what"][:60]
            if sig in seen or len(seen) >= 5:
                continue
            seen.add(sig)
            ob = Ob(f"{clause}[seed={r['seed']}]", VIOLATED, kind="bounded", backend="native", bound=bound, target="compiler.compile_code",
                    witness={"sources": f["sources"], "options": f["options"], "seed": r["seed"], "gen": r.get("gen"), "vector_kind": "single"},
                    replayed=True, detail={"observed": f["what"], "emitted_code": f.get("code"), "features": r["features"]})
            rep.add(ob)
    return recs


def replay_known(rep, prop, want=None):
    """Each recorded finding of this property carries a witness program; it is re-run on every run.  If it still fails
    it is printed as KNOWN-FINDING (obligation id = the finding's id), otherwise the evidence says it no longer reproduces."""
    want = want or [prop]
    out = []
    for kf in load_known_findings():
        if kf.get("property") != prop or "program" not in kf:
            continue
        w = kf["program"]
        task = (0, {"sources": w["sources"]}, "default", list(want) + [kf.get("fails_key", prop)])
        P_vectors = P.vectors
        try:
            P.vectors = lambda kind, _o=w.get("options_list") or [w.get("options", {})]: list(_o)
            rec = P.full_task(task)
        finally:
            P.vectors = P_vectors
        fs = rec.get("fails", {}).get(kf.get("fails_key", prop), [])
        needle = kf.get("expect", "")
        hit = [f for f in fs if needle in f["what"]]
        if hit:
            rep.add(Ob(kf["obligation"], VIOLATED, kind="bounded", backend="native", target="compiler.compile_code", replayed=True,
                       witness={"sources": w["sources"], "options": hit[0]["options"]}, detail={"observed": hit[0]["what"], "known_finding": kf["id"]}))
        else:
            rep.notes.append(f"known finding {kf['id']} no longer reproduces (status {rec['status']}: {str(rec.get('detail', ''))[:100]}; failures {[f['what'][:80] for f in fs]})")
            rep.extra.setdefault("known_findings_not_reproduced", []).append(kf["id"])
        out.append((kf["id"], bool(hit)))
    return out
