"""Witness programs of the recorded known findings (replayed on every run; see known_findings.json, tools/make_known.py)."""
H = "from stationeers_pytrapic.symbols import *\n"
D = {"append_version": False}
NI = {"append_version": False, "inline_functions": False}
C = {}
C["C01-inline-arg-aliases-global"] = ("C01", H + """g = 100
def calc(p):
    global g
    g = g + 5
    return p
while True:
    db.Setting = calc(g)
    yield_()
""", [D])
C["C01-operand-read-after-call"] = ("C01", H + """g = 1
def bump():
    global g
    g = g + d0.Setting
    return 10
while True:
    g += bump()
    db.Setting = g
    yield_()
""", [D])
C["C01-constant-list-jump-table"] = ("C01", H + """tbl = [90, 91, 92, 93, 94, 95]
while True:
    for i in range(6):
        db.Setting = tbl[i] + d0.Setting
    yield_()
""", [D])
C["C01-for-range-target-has-register"] = ("C01", H + """i = d0.Setting
db.On = i
while True:
    for i in range(3):
        db.Setting = i
    yield_()
""", [D])
C["C01-loop-variable-modified"] = ("C01", H + """while True:
    for i in range(4):
        db.Setting = i
        i += 1
    yield_()
""", [D])
C["C01-if-not-constant"] = ("C01", H + """DEBUG = 1
while True:
    if not DEBUG:
        db.Setting = 1
    else:
        db.Setting = 2
    yield_()
""", [D])
C["C01-continue-in-for-range"] = ("C01", H + """while True:
    for i in range(3):
        if i == 1:
            continue
        db.Setting = i
    yield_()
""", [D])
C["C04-alias-outlives"] = ("C01", H + """def f(p):
    y = p
    t = d0.Setting * 2
    u = t + d0.On
    db.Setting = u
    db.On = y
while True:
    f(d0.Pressure)
    f(d0.Charge)
    yield_()
""", [NI])
C["C04-nested-loop-lifetime"] = ("C01", H + """def f(p):
    for i in range(3):
        for k in range(2):
            db.Setting = p
        db.On = (d0.Setting + i) + d0.On
while True:
    f(d0.Pressure)
    f(d0.Charge)
    yield_()
""", [NI])
C["C04-transitive-blocking"] = ("C01", H + """def g():
    y = d1.Setting
    db.On = y + 1
def f():
    g()
    g()
while True:
    x = d0.Setting
    f()
    f()
    db.Setting = x
    yield_()
""", [NI])
C["C04-inlined-return-register"] = ("C01", H + """def g():
    return d1.On * 3
def f():
    t = d2.On + 1
    return g() + t
while True:
    db.Setting = d0.On + f()
    yield_()
""", [D])
C["C04-device-id-captured"] = ("C04", H + """def h(i):
    vent = Device(i)
    t = d0.Setting * 2
    vent.On = t + 1
    vent.Setting = t
while True:
    h(d1.Setting)
    h(d1.On)
    yield_()
""", [D])
C["C13-alias-shadows-local"] = ("C13", {"": H + """from library import a as t
while True:
    t.f(d1.On)
    t.f(d1.Setting)
    yield_()
""", "a": H + """def f(p):
    t = p + d0.On
    db.Setting = t * 2
"""}, [D])
C["C06-forlist-call"] = ("C06", H + """def f(p):
    db.Setting = p + d0.Setting
while True:
    for e in [1, 2]:
        f(e)
        f(e + 1)
    yield_()
""", [NI])
C["C06-tailcall-after-call"] = ("C06", H + """def calc():
    db.Setting = d0.Setting
def scale():
    calc()
    calc()
while True:
    scale()
    scale()
    yield_()
""", [{"append_version": False, "inline_functions": False, "tail_call_optimization": True}])
C["C06-tailcall-early-return"] = ("C07", H + """def step():
    db.On = d0.On
def calc(p):
    if p > 5:
        return
    db.Setting = p
    step()
while True:
    calc(d0.Setting)
    calc(d0.Pressure)
    step()
    yield_()
""", [{"append_version": False, "inline_functions": False, "tail_call_optimization": True}])
C["C06-tailcall-result-kind"] = ("C06", H + """def calc():
    return d0.Setting
def pick():
    db.On = 1
    calc()
while True:
    pick()
    pick()
    db.Setting = calc()
    yield_()
""", [{"append_version": False, "inline_functions": False, "tail_call_optimization": True, "use_push_pop_functions": True}])
C["C09-line-separator-in-name"] = ("C09", H + """db.On = HASH('a\u2028b')
""", [D])
C["C09-bitwise-not-opcode"] = ("C09", H + """while True:
    db.Setting = ~d0.Setting
    yield_()
""", [D])
C["C09-none-operand"] = ("C09", H + """db.Setting = None
""", [D])
C["C09-complex-literal"] = ("C09", H + """db.Setting = (-8) ** 0.5
""", [D])
C["C09-hex-beyond-64-bit"] = ("C09", H + """db.Setting = 2 ** 70
""", [D])
C["C05-prefix-names"] = ("C05", H + """def update():
    db.Setting = d0.Setting
def update_display():
    db.On = d0.On
while True:
    update()
    update()
    update_display()
    update_display()
    yield_()
""", [NI, dict(NI, remove_labels=True)])
C["C05-label-inside-hash"] = ("C05", H + """def update():
    db.Setting = d0.Setting
while True:
    update()
    update()
    db.On = HASH("update")
    yield_()
""", [NI, dict(NI, remove_labels=True)])
C["C05-fend-collision"] = ("C05", H + """def f(p):
    if p > 1:
        return
    db.Setting = p
def fend():
    db.On = 1
while True:
    f(d0.Setting)
    f(d0.On)
    fend()
    fend()
    yield_()
""", [NI])
C["C07-main-falls-through"] = ("C07", H + """def f():
    db.Setting = d0.Setting
f()
f()
db.On = 1
""", [NI])

C["C13-pushpop-library-exit"] = ("C02", {"": H + """from library import lib
while True:
    db.Setting = lib.outer(d0.Setting)
    db.On = lib.outer(d0.On)
    yield_()
""", "lib": H + """def inner(p):
    return p * 2
def outer(p):
    v = inner(p + 1) + 0
    return v + inner(p)
"""}, [{"append_version": False, "inline_functions": False, "use_push_pop_functions": True}])
