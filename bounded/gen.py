"""Seeded generator of source programs in the supported dialect (bounded stand-ins; DESIGN 6.C01 / 7).

The grammar follows the quantifier of the properties: expressions over the arithmetic / comparison operators,
if/elif/else, while, for-range (1-3 arguments, negative steps), for over constant lists, break/continue,
functions with 0-4 arguments / return values / early returns, global, device / batch / named-batch / slot / stack
access, constant lists with dynamic index, conditional expressions, intrinsics.

Programs stay inside the fragment where Python and IC10 arithmetic coincide (see spec/dialect.py).  `avoid` lists
syntactic shapes that trigger known findings of the unchanged tree; each is a documented exclusion (known_findings.json)
and is off by default so that the explored space does not contain the known triggers."""
from __future__ import annotations

import random

READ_DEVS = ["d0", "d2", "d3"]
WRITE_DEVS = ["db", "d1"]
READ_LT = ["Setting", "Temperature", "Pressure", "On", "Ratio", "Horizontal", "Vertical", "Charge"]
WRITE_LT = ["Setting", "On", "Mode", "Lock", "Open"]
BATCH_R = [("WallHeaters", "Power"), ("SolarPanels", "Charge"), ("GrowLights", "On"), ("GasSensors", "Pressure"), ("Furnaces", "Temperature")]
BATCH_W = [("WallHeaters", "On"), ("SolarPanels", "Horizontal"), ("GrowLights", "Lock"), ("WallLights", "On")]
MODES = ["Average", "Sum", "Minimum", "Maximum"]
NAMES = ["Potatos", "North", "Tank 1", "a"]
SLOT_LT = ["Occupied", "Quantity", "OccupantHash"]
FUNC_NAMES = ["calc", "update", "limit", "step", "mix", "scale", "check", "pick", "ramp", "tune"]
# names that differ only where one has '_' (labels print '_' as '.'): no name is a dotted prefix of another one
# (that shape is the recorded known finding C05-prefix-names) and none ends in 'end' (C05-fend-collision)
TRICKY_FUNC_NAMES = ["check_o2", "checkco2", "led_1", "led11", "set_a", "setxa", "p_q", "p1q", "mix_2", "mixa2", "a_b_c", "a_bxc"]
VAR_NAMES = ["a", "b", "c", "t", "u", "v", "w", "x", "y", "z", "acc", "tmp", "val", "lim"]


class Gen:
    def __init__(self, seed, max_funcs=2, depth=3, max_stmts=6, allow=(), calls_focus=False, chain=False, tricky_names=False, nested_defs=False, named_consts=False, terminating=False, carried=False):
        self.r = random.Random(seed)
        self.max_funcs, self.depth, self.max_stmts = max_funcs, depth, max_stmts
        self.allow = set(allow)
        self.funcs = []  # (name, nargs, returns)
        self.uid = 0
        self.globals = []
        self.features = set()
        self.main_vars = 0  # module-level variables live for the whole program: keep their number small
        self.calls_focus = calls_focus  # small bodies, deeper call graphs (C02 / C06 shapes)
        self.tricky_names = tricky_names
        self.named_consts = named_consts  # module-level named constants used as range steps / bounds and as flags guarding statements
        self.terminating = terminating  # the top-level script ends (no final endless loop); functions are leaves with at most one call site
        self.const_decls = {}
        self.carried = carried  # functions often carry a local round a loop that is only touched in a nested block
        self.nested_defs = nested_defs  # functions may define (and call) a local helper function
        self.chain = chain  # call chains main -> f_n -> ... -> f_1, callees defined first, inner functions reached only through the chain

    # ------------------------------------------------------------- helpers
    def fresh(self, prefix="v"):
        self.uid += 1
        return f"{prefix}{self.uid}"

    def const(self):
        r = self.r
        return r.choice([0, 1, 2, 3, 5, 7, 10, 20, 50, 100, 0.5, 1.5, 2.5, 0.25, -1, -3, 12, 273.15])

    def pos_const(self):
        return self.r.choice([1, 2, 3, 4, 5, 7, 10, 0.5, 2.5])

    # ------------------------------------------------------------- expressions
    def read(self):
        r = self.r
        k = r.random()
        if k < 0.55:
            return f"{r.choice(READ_DEVS)}.{r.choice(READ_LT)}"
        if k < 0.7:
            b, lt = r.choice(BATCH_R)
            self.features.add("batch")
            return f"{b}.{lt}.{r.choice(MODES)}"
        if k < 0.8:
            b, lt = r.choice(BATCH_R)
            self.features.add("named-batch")
            return f'{b}["{r.choice(NAMES)}"].{lt}.{r.choice(MODES)}'
        if k < 0.86:
            self.features.add("slot")
            return f"fur.slot{r.randrange(0, 2)}.{r.choice(SLOT_LT)}"
        if k < 0.88:
            self.features.add("slot")
            return f"Furnaces.slot{r.randrange(0, 2)}.{r.choice(SLOT_LT)}.{r.choice(MODES)}"
        if k < 0.92:
            self.features.add("typed-device")
            return r.choice(["sens.Horizontal", "sens.Vertical", "fur.Temperature", "fur.Pressure"])
        self.features.add("stack")
        return f"stack[{r.randrange(100, 108)}]"

    def atom(self, vars_):
        r = self.r
        k = r.random()
        if vars_ and k < 0.45:
            return r.choice(vars_)
        if k < 0.7:
            return self.read()
        c = self.const()
        return f"({c})" if c < 0 else str(c)

    def expr(self, vars_, depth=2, calls=True):
        r = self.r
        if self.calls_focus:
            depth = min(depth, 1)
        if depth <= 0 or r.random() < 0.3:
            return self.atom(vars_)
        k = r.random()
        if k < 0.5:
            op = r.choice(["+", "-", "*", "+", "-"])
            return f"({self.expr(vars_, depth - 1, calls)} {op} {self.expr(vars_, depth - 1, calls)})"
        if k < 0.58:
            return f"({self.expr(vars_, depth - 1, calls)} / {self.pos_const()})"
        if k < 0.64:
            return f"({self.expr(vars_, depth - 1, calls)} % {self.pos_const()})"
        if k < 0.7:
            return f"(-{self.atom(vars_)})"
        if k < 0.78:
            self.features.add("intrinsic")
            f = r.choice(["max", "min"])
            return f"{f}({self.expr(vars_, depth - 1, calls)}, {self.expr(vars_, depth - 1, calls)})"
        if k < 0.82:
            self.features.add("intrinsic")
            return f"{r.choice(['abs', 'floor', 'ceil'])}({self.expr(vars_, depth - 1, calls)})"
        if k < 0.88:
            self.features.add("ifexp")
            return f"({self.expr(vars_, depth - 1, False)} if {self.cond(vars_, 1)} else {self.expr(vars_, depth - 1, False)})"
        if k < 0.93:
            self.features.add("compare-value")
            return f"({self.atom(vars_)} {r.choice(['<', '>', '<=', '>=', '==', '!='])} {self.atom(vars_)})"
        # a callee that assigns a global is never called from inside a larger expression: Python reads the
        # other operands before the call, the emitted code reads the register after it
        # (known finding C01-operand-read-after-call)
        fs = [f for f in self.funcs if f[2] and not f[3]]
        if calls and fs:
            f = r.choice(fs)
            self.features.add("call-in-expr")
            return f"{f[0]}({', '.join(self.arg(vars_, depth - 1) for _ in range(f[1]))})"
        return self.atom(vars_)

    def arg(self, vars_, depth):
        e = self.expr(vars_, depth, False)
        if e in self.globals:
            # an inlined callee binds a bare variable argument by aliasing; if it also assigns that global,
            # the parameter changes under its feet (known finding C01-inline-arg-aliases-global)
            e = f"({e} + 0)"
        return e

    def cond(self, vars_, depth=1):
        r = self.r
        k = r.random()
        left = self.expr(vars_, depth, False)
        if not any(c.isalpha() for c in left.replace("abs", "").replace("floor", "").replace("ceil", "").replace("max", "").replace("min", "")):
            # a compile-time constant test prunes a branch (and the returns in it); keep tests run-time
            # (constant tests are covered by known finding C01-if-not-constant and by C03)
            left = f"({left} + {self.read()})"
        cmp_ = f"{left} {r.choice(['<', '>', '<=', '>=', '==', '!='])} {self.expr(vars_, depth, False)}"
        if k < 0.8 or depth <= 0:
            return cmp_
        self.features.add("boolop")
        other = f"{self.atom(vars_)} {r.choice(['<', '>'])} {self.atom(vars_)}"
        if k < 0.9:
            return f"({cmp_}) and ({other})"
        return f"({cmp_}) or ({other})"

    # ------------------------------------------------------------- statements
    def write(self, vars_, ind):
        r = self.r
        e = self.expr(vars_, 2)
        k = r.random()
        if k < 0.6:
            return [f"{ind}{r.choice(WRITE_DEVS)}.{r.choice(WRITE_LT)} = {e}"]
        if k < 0.75:
            b, lt = r.choice(BATCH_W)
            self.features.add("batch")
            return [f"{ind}{b}.{lt} = {e}"]
        if k < 0.85:
            b, lt = r.choice(BATCH_W)
            self.features.add("named-batch")
            return [f'{ind}{b}["{r.choice(NAMES)}"].{lt} = {e}']
        if k < 0.95:
            self.features.add("stack")
            return [f"{ind}stack[{r.randrange(100, 108)}] = {e}"]
        self.features.add("typed-device")
        return [f"{ind}heat.On = {e}"]

    def block(self, vars_, ind, depth, n, in_loop=None, in_func=None):
        out = []
        vars_ = list(vars_)
        for _ in range(n):
            out += self.stmt(vars_, ind, depth, in_loop, in_func)
        return out

    def stmt(self, vars_, ind, depth, in_loop=None, in_func=None):
        r = self.r
        k = r.random()
        inner = ind + "    "
        if in_func is not None and in_loop is not None and (0.6 <= k < 0.8 or 0.9 <= k < 0.93):
            # a loop nested in a loop inside a function: lifetimes are widened to the innermost loop only
            # (known finding C04-nested-loop-lifetime); functions get no nested loops
            k = 0.0
        if in_func is None:
            if self.main_vars >= 5 and (0.22 <= k < 0.42 or 0.6 <= k < 0.8 or 0.9 <= k < 0.93):
                k = 0.0  # no further module-level variables / loop counters
            elif 0.22 <= k < 0.42 or 0.6 <= k < 0.8:
                self.main_vars += 1
            elif 0.9 <= k < 0.93:
                self.main_vars += 2
        if k < 0.22 or depth <= 0:
            return self.write(vars_, ind)
        if k < 0.42:
            if vars_ and r.random() < 0.4:
                v = r.choice([x for x in vars_ if not x.startswith(("i", "k", "e"))] or [None])
                if v:
                    self.features.add("augassign")
                    return [f"{ind}{v} {r.choice(['+=', '-=', '*='])} {self.expr(vars_, 1, v not in self.globals)}"]
            v = self.fresh()
            e = self.expr(vars_, 2)
            if e in vars_:  # a bare copy aliases registers (known finding C04-alias); keep it an expression
                e = f"({e} + 0)"
            vars_.append(v)
            return [f"{ind}{v} = {e}"]
        if k < 0.6 and self.named_consts and r.random() < 0.3:
            # a branch switched by a named flag ('if not FLAG' is the recorded known finding C01-if-not-constant: not generated)
            self.features.add("if-named-flag")
            flag = self.named("FLAG", r.choice([0, 1]))
            out = [f"{ind}if {flag}:"] + self.block(vars_, inner, depth - 1, r.randrange(1, 3), in_loop, in_func)
            if r.random() < 0.5:
                out += [f"{ind}else:"] + self.block(vars_, inner, depth - 1, r.randrange(1, 3), in_loop, in_func)
            return out
        if k < 0.6:
            self.features.add("if")
            out = [f"{ind}if {self.cond(vars_)}:"] + self.block(vars_, inner, depth - 1, r.randrange(1, 3), in_loop, in_func)
            while r.random() < 0.3:
                self.features.add("elif")
                out += [f"{ind}elif {self.cond(vars_)}:"] + self.block(vars_, inner, depth - 1, r.randrange(1, 3), in_loop, in_func)
            if r.random() < 0.5:
                out += [f"{ind}else:"] + self.block(vars_, inner, depth - 1, r.randrange(1, 3), in_loop, in_func)
            return out
        if k < 0.7:
            self.features.add("for-range")
            i = self.fresh("i")
            form = r.random()
            if self.named_consts and r.random() < 0.45:
                self.features.add("for-range-named-const")
                if r.random() < 0.5:
                    st_, a = self.named("STEP", r.choice([-1, -2, -3])), r.randrange(3, 8)
                    rng = f"range({a}, {a - r.randrange(1, 5)}, {st_})"
                else:
                    st_, a = self.named("UP", r.choice([1, 2])), r.randrange(0, 3)
                    rng = f"range({a}, {self.named('LIM', a + r.randrange(1, 5))}, {st_})"
            elif form < 0.5:
                rng = f"range({r.randrange(1, 5)})"
            elif form < 0.75:
                a = r.randrange(0, 3)
                rng = f"range({a}, {a + r.randrange(1, 4)})"
            elif form < 0.9:
                a = r.randrange(0, 3)
                rng = f"range({a}, {a + r.randrange(2, 7)}, {r.randrange(1, 4)})"
            elif form < 0.95 and "computed-range" not in self.features:
                self.features.add("computed-range")
                rng = f"range({self.int_bound(vars_)})"
            else:
                self.features.add("for-range-negative-step")
                a = r.randrange(3, 8)
                rng = f"range({a}, {a - r.randrange(1, 5)}, -{r.randrange(1, 3)})"
            body = self.block(vars_ + [i], inner, depth - 1, r.randrange(1, 3), ("for", i), in_func)
            return [f"{ind}for {i} in {rng}:"] + body
        if k < 0.76:
            self.features.add("while")
            c = self.fresh("k")
            lim = r.randrange(1, 4)
            body = [f"{inner}{c} += 1"] + self.block(vars_ + [c], inner, depth - 1, r.randrange(1, 3), ("while", c), in_func)
            return [f"{ind}{c} = 0", f"{ind}while {c} < {lim}:"] + body
        if k < 0.8 and "for-list" in self.allow or (k < 0.8 and in_func is None and in_loop is None):
            self.features.add("for-list")
            i = self.fresh("e")
            vals = [self.const() for _ in range(r.randrange(1, 4))]
            # a call inside the body clobbers ra (known finding C06-forlist-call): bodies are call-free
            saved, self.funcs = self.funcs, []
            body = self.block(vars_ + [i], inner, 0, r.randrange(1, 3), ("forlist", i), in_func)
            self.funcs = saved
            return [f"{ind}for {i} in [{', '.join(map(str, vals))}]:"] + body
        if k < 0.84 and in_loop and in_loop[0] == "while":
            self.features.add("break" )
            return [f"{ind}if {self.cond(vars_, 0)}:", f"{inner}break"]
        if k < 0.87 and in_loop and in_loop[0] == "while":
            self.features.add("continue")
            return [f"{ind}if {self.cond(vars_, 0)}:", f"{inner}continue"]
        if k < 0.9 and in_loop and in_loop[0] == "for":
            self.features.add("break")
            return [f"{ind}if {self.cond(vars_, 0)}:", f"{inner}break"]
        if k < 0.93:
            self.features.add("const-list-index")
            n = r.randrange(2, 6)
            vals = [self.const() for _ in range(n)]
            i = self.fresh("i")
            v = self.fresh()
            lst = self.fresh("tbl")
            return [f"{ind}{lst} = [{', '.join(map(str, vals))}]", f"{ind}for {i} in range({n}):",
                    f"{inner}{r.choice(WRITE_DEVS)}.{r.choice(WRITE_LT)} = {lst}[{i}] + {self.atom(vars_)}"]
        fs = [f for f in self.funcs if in_func is None or f[0] != in_func]
        if fs and not (in_loop and in_loop[0] == "forlist"):
            f = r.choice(fs)
            self.features.add("call")
            args = ", ".join(self.arg(vars_, 1) for _ in range(f[1]))
            if f[2] and r.random() < 0.6:
                v = self.fresh()
                vars_.append(v)
                # `v = f(..)` makes v an alias of the (inlined) callee's result register (known finding C04-alias)
                return [f"{ind}{v} = {f[0]}({args}) + 0"]
            return [f"{ind}{f[0]}({args})"]
        return self.write(vars_, ind)

    def int_bound(self, vars_):
        """a small non-negative integer-valued expression (loop bound computed at run time)"""
        r = self.r
        base = r.choice([f"floor({self.atom(vars_)} % {r.randrange(2, 5)})", f"floor(abs({self.atom(vars_)}) % {r.randrange(2, 4)})"])
        k = r.random()
        if k < 0.4:
            return f"{base} + 1"
        if k < 0.7:
            return f"{base} * 2 + 1"
        return base

    def named(self, prefix, value):
        """a module-level constant name bound to `value` (declared once at the top of the program)"""
        for n, v in self.const_decls.items():
            if v == value and n.startswith(prefix):
                return n
        n = f"{prefix}{len(self.const_decls)}"
        self.const_decls[n] = value
        return n

    def ret(self, vars_, returns, ind):
        return [f"{ind}return {self.expr(vars_, 1)}"] if returns else [f"{ind}return"]

    def function(self, name, nargs, returns, callees):
        r = self.r
        args = [f"p{j}" for j in range(nargs)]
        saved = self.funcs
        self.funcs = callees
        lines = [f"def {name}({', '.join(args)}):"]
        vars_ = list(args)
        if args and r.random() < 0.25:
            # a parameter the body never reads (its argument is still passed)
            vars_.remove(r.choice(args))
            self.features.add("unused-parameter")
        self.last_mods_global = False
        if self.globals and r.random() < 0.4:
            self.last_mods_global = True
            g = r.choice(self.globals)
            self.features.add("global")
            lines.append(f"    global {g}")
            lines.append(f"    {g} = {g} + {self.expr(vars_, 1, False)}")
            vars_.append(g)
        # every function owns at least one register variable (see known finding C04-transitive-blocking)
        loc = self.fresh("l")
        e0 = self.expr(vars_, 2 if not self.calls_focus else 1)
        if e0 in vars_:  # bare copy: known finding C04-alias
            e0 = f"({e0} + 0)"
        lines.append(f"    {loc} = {e0}")
        vars_.append(loc)
        if self.nested_defs and r.random() < 0.5:
            # a helper defined inside this function (no closure variables), called once or twice from the body
            self.features.add("nested-def")
            inner = self.fresh("pulse")
            q = self.fresh("q")
            lines += [f"    def {inner}({q}):"] + self.write([q], "        ") + ([f"        {self.write([q], '')[0]}"] if r.random() < 0.5 else []) + [""]
            for _ in range(r.randrange(1, 3)):
                lines.append(f"    {inner}({self.arg(vars_, 1)})")
        # a tail call hands the callee's result convention to the caller's caller: same kind only
        # (known finding C06-tailcall-result-kind)
        same_kind = [c for c in callees if c[2] == returns]
        tailcall = bool(same_kind) and r.random() < (getattr(self, 'tailcall_p', None) or (0.2 if not self.chain else 0.45))
        if tailcall:
            self.funcs = []  # the tail call is the only call of this function (see known finding C06-tailcall-after-call)
        if callees and not tailcall and (self.chain or r.random() < (0.6 if not self.calls_focus else 0.9)):
            # a nested call (the return address must survive it)
            f = callees[-1] if self.chain else r.choice(callees)
            self.features.add("nested-call")
            a = ", ".join(self.arg(vars_, 1) for _ in range(f[1]))
            if f[2]:
                v = self.fresh()
                lines.append(f"    {v} = {f[0]}({a}) + 0")
                vars_.append(v)
            else:
                lines.append(f"    {f[0]}({a})")
        if not self.chain and r.random() < (0.04 if not getattr(self, "carried", False) else 0.7):
            # a local carried round a loop of this function that is only touched inside a nested block of the loop body,
            # followed (in the same body) by a statement that needs fresh temporaries
            self.features.add("carried-in-nested-block")
            acc, i = self.fresh("acc"), self.fresh("i")
            lines.append(f"    {acc} = {self.expr(vars_, 1)}")
            lines.append(f"    for {i} in range({r.randrange(2, 5)}):")
            lines.append(f"        if {self.cond(vars_ + [i], 1)}:")
            lines.append(f"            {acc} = {acc} + {self.expr(vars_ + [i], 1)}")
            lines.append(f"            {r.choice(WRITE_DEVS)}.{r.choice(WRITE_LT)} = {acc}")
            if r.random() < 0.5:
                lines.append(f"        else:")
                lines.append(f"            {acc} = {acc} * 2")
            # enough fresh temporaries after the nested block to run through the registers freed so far
            for _ in range(r.randrange(1, 3)):
                lines.append(f"        {r.choice(WRITE_DEVS)}.{r.choice(WRITE_LT)} = ({self.arg(vars_ + [i], 0)} + {self.arg(vars_ + [i], 0)}) * {r.choice([2, 3, i])}")
        if r.random() < (0.4 if not self.chain else 0.2) and not tailcall:
            self.features.add("early-return")
            lines += [f"    if {self.cond(vars_, 1)}:"] + self.block(vars_, "        ", 1, r.randrange(0, 2), None, name) + self.ret(vars_, returns, "        ")
        lines += self.block(vars_, "    ", self.depth - 1 if not self.calls_focus else 1, r.randrange(0, 3 if not self.calls_focus else 2) if not self.chain else 0, None, name)
        shape = r.random() * (0.5 if self.chain else 1.0)  # chain mode: no loops in function tails (4 levels share 16 registers)
        if tailcall:
            self.features.add("tail:call")
            f = same_kind[-1] if self.chain else r.choice(same_kind)
            a = ", ".join(self.arg(vars_, 1) for _ in range(f[1]))
            lines.append(f"    return {f[0]}({a})" if (returns and f[2]) else f"    {f[0]}({a})")
            if returns and not f[2]:
                lines += self.ret(vars_, True, "    ")
        elif shape < 0.3:
            self.features.add("tail:plain")
            if returns:
                lines += self.ret(vars_, True, "    ")
        elif shape < 0.5:
            self.features.add("tail:if-else-returns")
            lines += [f"    if {self.cond(vars_, 1)}:"] + self.write(vars_, "        ") + self.ret(vars_, returns, "        ")
            if r.random() < 0.5:
                lines += [f"    elif {self.cond(vars_, 1)}:"] + self.ret(vars_, returns, "        ")
            lines += ["    else:"] + self.write(vars_, "        ") + self.ret(vars_, returns, "        ")
        elif shape < 0.65:
            self.features.add("tail:for-with-return")
            i = self.fresh("i")
            lines += [f"    for {i} in range({r.randrange(2, 5)}):"] + self.write(vars_ + [i], "        ")
            lines += [f"        if {self.cond(vars_ + [i], 0)}:"] + self.ret(vars_ + [i], returns, "            ")
            if r.random() < 0.5:
                lines += self.write(vars_ + [i], "        ")
            if returns:
                lines += self.ret(vars_, True, "    ")
        elif shape < 0.8:
            self.features.add("tail:while-true-return")
            lines += ["    while True:"] + self.write(vars_, "        ") + ["        yield_()"]
            lines += [f"        if {self.cond(vars_, 0)}:"] + self.ret(vars_, returns, "            ")
            if r.random() < 0.4:
                lines += self.write(vars_, "        ")
        elif shape < 0.9:
            self.features.add("tail:computed-range")
            i = self.fresh("i")
            acc = self.fresh("acc")
            lines += [f"    {acc} = 0", f"    for {i} in range({self.int_bound(vars_)}):",
                      f"        {acc} += ({i} + 1) * ({i} + {self.atom(vars_)})"] + self.write(vars_ + [i, acc], "        ")
            vars_.append(acc)
            if returns:
                lines += [f"    return {acc}"]
        else:
            self.features.add("tail:void-early")
            lines += [f"    if {self.cond(vars_, 1)}:"] + self.ret(vars_, returns, "        ") + self.write(vars_, "    ")
            if returns:
                lines += self.ret(vars_, True, "    ")
        import re as _re

        callee_re = _re.compile(r"\b(" + "|".join(c[0] for c in callees) + r")\(") if callees else None
        last_is_call = bool(callee_re and _re.fullmatch(r"\s+(return )?[a-z]+\(.*\)", lines[-1]) and callee_re.search(lines[-1]))
        if last_is_call:
            body = lines[1:-1]
            other_calls = any(callee_re.search(l) for l in body)
            other_returns = any(_re.match(r"\s+return\b", l) for l in body)
            if other_calls or other_returns:
                # tail-call optimisation is only sound for "straight-line body + tail call" (known findings
                # C06-tailcall-after-call / C06-tailcall-early-return): make the call a non-tail call
                if lines[-1].lstrip().startswith("return "):
                    v = self.fresh()
                    ind = lines[-1][: len(lines[-1]) - len(lines[-1].lstrip())]
                    lines[-1:] = [f"{ind}{v} = {lines[-1].lstrip()[7:]} + 0", f"{ind}return {v} + 0"]
                else:
                    lines += self.write(vars_, "    ")
                self.features.discard("tail:call")
        self.funcs = saved
        return lines

    def program(self):
        r = self.r
        lines = ["from stationeers_pytrapic.symbols import *", "", "fur = Furnace(d2)", "sens = DaylightSensor(d3)", "heat = WallHeater(d1)"]
        nf = r.randrange(0, self.max_funcs + 1) if not self.calls_focus else r.randrange(2, self.max_funcs + 2)
        names = r.sample(FUNC_NAMES, nf)
        if self.tricky_names:
            # one pair of names that differ only where one has '_', sometimes a third function
            k = 2 * r.randrange(len(TRICKY_FUNC_NAMES) // 2)
            names = TRICKY_FUNC_NAMES[k: k + 2] + ([r.choice(FUNC_NAMES)] if r.random() < 0.3 else [])
            r.shuffle(names)
        ng = r.randrange(0, 2)
        for _ in range(ng):
            g = self.fresh("g")
            self.globals.append(g)
            lines.append(f"{g} = {self.const()}")
        defs = []
        made = []
        if self.terminating:
            names = names[: max(1, min(2, len(names)))] if names else names
        for n in names:
            nargs = (r.randrange(0, 4) if not self.calls_focus else r.randrange(0, 3)) if not self.chain else r.randrange(0, 2)
            returns = r.random() < 0.6
            if self.chain and n != names[-1]:
                # a value-returning function that is called only from other functions: known finding C04-inlined-return-register
                returns = False
            body = self.function(n, nargs, returns, list(made) if not self.terminating else [])
            made.append((n, nargs, returns, self.last_mods_global or any(c[3] for c in made if f"{c[0]}(" in "\n".join(body))))
            defs += body + [""]
        self.funcs = made
        lines += defs
        vars_ = list(self.globals)
        if self.terminating:
            # the script runs once and ends.  Every function has one call site (inlined under the default options, so no
            # function region follows the main code: the recorded finding C07-main-falls-through is not in this space) or
            # its only call sits in a branch that a named flag switches off.
            self.funcs = []
            body = self.block(vars_, "", 2, r.randrange(1, 4))
            for f in made:
                args = ", ".join(self.arg(vars_, 1) for _ in range(f[1]))
                call = f"db.Setting = {f[0]}({args})" if f[2] else f"{f[0]}({args})"
                if r.random() < 0.5:
                    flag = self.named("FLAG", r.choice([0, 0, 1]))
                    self.features.add("call-under-named-flag")
                    body += [f"if {flag}:", f"    {call}"] + (["else:", f"    db.On = {self.const()}"] if r.random() < 0.4 else [])
                else:
                    body.append(call)
            body += self.block(vars_, "", 1, r.randrange(0, 2))
            body.append(f"db.Mode = {self.const()}")
            lines += body
            self.features.add("terminating-main")
            if made:
                self.features.add(f"functions:{len(made)}")
            return "\n".join(self._with_consts(lines)) + "\n"
        small_main = self.chain or self.carried
        pre = self.block(vars_, "", 1, r.randrange(0, 3) if not small_main else 0)
        lines += pre
        lines.append("while True:")
        # chain mode: a tiny main loop (temporaries inside 'while True' live for the whole loop; four call levels share 16 registers)
        body = self.block(vars_, "    ", self.depth if not self.calls_focus else 1, r.randrange(1, self.max_stmts if not self.calls_focus else 3) if not small_main else r.randrange(0, 2))
        # every defined function is called at least once from the top-level code (otherwise it may emit nothing)
        for f in made:
            if self.chain and any(f"{f[0]}(" in l for l in defs if not l.startswith(f"def {f[0]}(")):
                continue  # reached through another function only
            if not any(f"{f[0]}(" in l for l in pre + body):
                args = ", ".join(self.arg(vars_, 1) for _ in range(f[1]))
                body.append(f"    db.Setting = {f[0]}({args})" if f[2] else f"    {f[0]}({args})")
        for f in made:
            inner = self.chain and any(f"{f[0]}(" in l for l in defs if not l.startswith(f"def {f[0]}("))
            if r.random() < (0.5 if not inner else 0.1):
                self.features.add("called-twice")
                args = ", ".join(self.arg(vars_, 1) for _ in range(f[1]))
                body.append(f"    d1.Setting = {f[0]}({args})" if f[2] else f"    {f[0]}({args})")
        lines += body
        lines.append("    yield_()")
        if made:
            self.features.add(f"functions:{len(made)}")
        return "\n".join(self._with_consts(lines)) + "\n"

    def _with_consts(self, lines):
        if not self.const_decls:
            return lines
        decl = [f"{n} = {v}" for n, v in self.const_decls.items()]
        return lines[:5] + decl + lines[5:]


def generate(seed, **kw):
    g = Gen(seed, **kw)
    src = g.program()
    return src, sorted(g.features)
