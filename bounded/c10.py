"""Bounded stand-in for C10 on compile_code itself: arbitrary text in, a verdict out, promptly, no helper process left."""
from __future__ import annotations

import glob
import os
import random
import time

from bounded import explore as E
from pyvc.report import HELD, REPO, VIOLATED, Ob


def _children():
    me = str(os.getpid())
    out = []
    for p in os.listdir("/proc"):
        if p.isdigit():
            try:
                st = open(f"/proc/{p}/stat").read().rsplit(")", 1)[1].split()
                if st[1] == me and st[0] != "Z":
                    out.append(p)
            except Exception:
                pass
    return out


def verdict_task(task):
    kind, src, opts = task
    from stationeers_pytrapic.compiler import compile_code

    before = set(_children())
    t0 = time.time()
    try:
        r = compile_code(src, opts)
    except RecursionError:
        return {"status": "ok", "kind": kind, "note": "RecursionError (A-stack)", "t": time.time() - t0}
    except BaseException as e:
        return {"status": "fail", "kind": kind, "src": src, "options": opts, "what": f"compile_code raised {type(e).__name__}: {e}", "t": time.time() - t0}
    dt = time.time() - t0
    time.sleep(0.05) if kind == "constexpr" else None
    left = [c for c in _children() if c not in before]
    what = None
    main = src[""] if isinstance(src, dict) else src
    if not isinstance(r, dict):
        what = f"result is {type(r).__name__}, not a dict"
    elif "code" in r:
        if not all(isinstance(r.get(k), int) for k in ("num_lines", "num_registers", "num_bytes")) or not isinstance(r["code"], str):
            what = f"successful result without consistent statistics: { {k: r.get(k) for k in r if k != 'code'} }"
    elif "error" in r:
        e = r["error"]
        if not isinstance(e, dict) or not isinstance(e.get("description"), str):
            what = f"error without description: {str(e)[:200]}"
        elif isinstance(main, str) and e.get("line") is not None:
            # the position may refer to any of the submitted modules (the result does not say which)
            nlines = max(t.count("\n") + 1 for t in (src.values() if isinstance(src, dict) else [src]) if isinstance(t, str))
            if not (isinstance(e["line"], int) and 0 <= e["line"] <= nlines + 1):
                what = f"error position line {e['line']} outside the submitted text ({nlines} lines)"
    else:
        what = f"result has neither 'code' nor 'error': {str(r)[:200]}"
    if what is None and left:
        what = f"helper process(es) {left} still running after compile_code returned"
    n_constexpr = main.count("@constexpr") if isinstance(main, str) else 0
    # "promptly": a hang detector, sized so that load on all 16 cores (first-call import of the inference tables takes
    # several seconds then) cannot flip the verdict
    if what is None and dt > 60 + 15 * n_constexpr:
        what = f"took {dt:.1f} s"
    if what:
        return {"status": "fail", "kind": kind, "src": src, "options": opts, "what": what, "t": dt}
    return {"status": "ok", "kind": kind, "t": dt, "verdict": "code" if "code" in r else "error"}


H = "from stationeers_pytrapic.symbols import *\n"
CONSTEXPR = [
    H + "@constexpr\ndef f(n):\n    return n * 2\ndb.Setting = f(21)\n",
    H + "@constexpr\ndef f(n):\n    raise ValueError('boom')\ndb.Setting = f(1)\n",
    H + "@constexpr\ndef f(n):\n    print('hello')\n    return 1\ndb.Setting = f(1)\n",
    H + "@constexpr\ndef f(n):\n    while True:\n        pass\ndb.Setting = f(1)\n",
    H + "@constexpr\ndef f(n):\n    import sys\n    sys.exit(3)\ndb.Setting = f(1)\n",
    H + "@constexpr\ndef f(n):\n    return open('/etc/passwd').read()\ndb.Setting = f(1)\n",
    H + "@constexpr\ndef f(n):\n    return float('nan')\ndb.Setting = f(1)\n",
    H + "@constexpr\ndef f(n):\n    return {1, 2}\ndb.Setting = f(1)\n",
    H + "@constexpr\ndef f(n):\n    return f(n)\ndb.Setting = f(1)\n",
    H + "@constexpr\ndef f(n):\n    import os\n    os.fork()\n    return 1\ndb.Setting = f(1)\n",
]
# editing histories (the in-game editor compiles on every keystroke, in one process): the same failing constexpr call first
# far down in a long text, then in a shorter text -- each verdict must describe the text it was given
_PAD = "".join(f"# note {i}\n" for i in range(18))
for _body in ("    while n > 0:\n        n += 1\n    return n\n", "    return [1, 2][n]\n", "    return undefined_name + n\n"):
    CONSTEXPR.append(H + _PAD + "@constexpr\ndef g(n):\n" + _body + "db.Setting = g(5)\n")
    CONSTEXPR.append(H + "@constexpr\ndef g(n):\n" + _body + "db.Setting = g(5)\n")
    CONSTEXPR.append(H + "x = 1\n@constexpr\ndef g(n):\n" + _body + "y = 2\ndb.Setting = g(5)\n")


def corpus(seed, n):
    rnd = random.Random(seed)
    files = sorted(glob.glob(str(REPO / "test" / "cases" / "*.py")) + glob.glob(str(REPO / "src" / "stationeers_pytrapic" / "examples" / "*.py")))
    texts = [open(f, encoding="utf-8").read() for f in files if "__init__" not in f]
    out = [("fixed", t, None) for t in ["", " ", "\n", "\x00", "\ufeff", "x = (", "def f(:\n", "-" * 100000 + "1", "not " * 30000 + "1", "(" * 500 + ")" * 500,
                                        "def f():\n    return f()\nf()\n", H + "def f(n):\n    return f(n - 1)\ndb.Setting = f(3)\n", H + "def a():\n    b()\ndef b():\n    a()\na()\n",
                                        "require 'x'\n", "-- lua\nlocal x = 1\n", "# pytrapic: __class__\nx = 1\n", "# pytrapic: __init__, no___str__\nx = 1\n",
                                        H + "class A:\n    pass\n", H + "x = [i for i in range(3)]\n", H + "with open('f') as f:\n    pass\n", H + "try:\n    pass\nexcept Exception:\n    pass\n",
                                        H + "db.Setting = 1 if\n", H + "lambda: 0\n", H + "import os\nos.system('true')\n", H + "db.Setting = '\ud83d'\n", H + "db.Setting = 10 ** 400\n",
                                        H + "db.Setting = 1 / 0\n", H + "x = d0.Setting\nwhile x:\n    x = x - 1\n", "\t\tx = 1\n", H + "def j():\n    pass\nj()\n"]]
    opt_pool = [None, {}, {"compact": True, "remove_labels": True}, {"inline_functions": False, "use_push_pop_functions": True, "tail_call_optimization": True},
                {"original_code_as_comment": True, "generated_comments": True}]
    for _ in range(n):
        t = rnd.choice(texts)
        k = rnd.random()
        if k < 0.4:
            cut = rnd.randrange(0, len(t) + 1)
            out.append(("prefix", t[:cut], rnd.choice(opt_pool)))
        elif k < 0.7:
            i = rnd.randrange(0, max(1, len(t)))
            out.append(("deletion", t[:i] + t[i + 1:], rnd.choice(opt_pool)))
        elif k < 0.85:
            i = rnd.randrange(0, max(1, len(t)))
            out.append(("insertion", t[:i] + rnd.choice(["(", ")", ":", "\n", "\t", "'", '"', "@", "=", " def ", " return ", "\\", "\x00", "é"]) + t[i:], rnd.choice(opt_pool)))
        elif k < 0.93:
            out.append(("noise", "".join(rnd.choice("abcxyz01 =()[]:.,\n\t+-*/'\"#@") for _ in range(rnd.randrange(1, 200))), rnd.choice(opt_pool)))
        else:
            a, b = rnd.choice(texts), rnd.choice(texts)
            out.append(("modules", {"": a, "lib": b[: rnd.randrange(0, len(b) + 1)]}, rnd.choice(opt_pool)))
    return out


def verdict_corpus(rep, tier, seed):
    q = tier == "quick"
    t0 = time.time()
    tasks = corpus(seed, 1500 if q else 40000)
    recs, done, timed_out = E.run_pool(verdict_task, tasks, 50 if q else 900)
    # constexpr bodies: serially, so that the 1 s child timeout is not hit because of our own load
    crecs = [verdict_task(("constexpr", s, None)) for s in CONSTEXPR]
    allr = recs + crecs
    for r in allr:
        if r["status"] == "checker-crash":
            rep.crash(r["detail"])
    fails = [r for r in allr if r["status"] == "fail"]
    kinds = {}
    for r in allr:
        kinds[r.get("kind")] = kinds.get(r.get("kind"), 0) + 1
    verdicts = {}
    for r in allr:
        verdicts[r.get("verdict", "-")] = verdicts.get(r.get("verdict", "-"), 0) + 1
    bound = f"{len(allr)} texts ({kinds}); verdicts {verdicts}; slowest {max((r.get('t', 0) for r in allr), default=0):.2f} s"
    if not fails:
        rep.add(Ob("compiler.compile_code#returns_a_verdict_promptly_and_cleans_up", HELD, kind="bounded", backend="native", bound=bound, time_s=time.time() - t0, target="compiler.compile_code"))
    seen = set()
    for r in fails:
        sig = r["what"][:50]
        if sig in seen or len(seen) >= 4:
            continue
        seen.add(sig)
        src = r["src"]
        rep.add(Ob(f"compiler.compile_code#returns_a_verdict_promptly_and_cleans_up[{r['kind']}:{__import__('zlib').crc32(str(src).encode('utf-8', 'surrogatepass')) % 100000}]", VIOLATED, kind="bounded", backend="native",
                   bound=bound, target="compiler.compile_code", replayed=True, witness={"source": src if not isinstance(src, str) or len(src) < 3000 else src[:200] + f"...({len(src)} chars)", "options": r["options"],
                            **({"compiled_before_in_the_same_process": CONSTEXPR[:CONSTEXPR.index(src)]} if r["kind"] == "constexpr" and src in CONSTEXPR else {})},
                   detail={"observed": r["what"]}))
    rep.bounded.update(evaluations=len(allr), distinct_nontrivial=len({r.get("kind") for r in allr}) + verdicts.get("error", 0),
                       rule="texts: prefixes / single-character deletions / insertions of every test and example source, noise strings, deep nesting, recursion, two-module inputs, constexpr bodies (failing, printing, non-terminating, exiting, forking); non-trivial = yields an error verdict or belongs to a distinct kind")
    rep.samples.extend([{"kind": k, "text": (s if isinstance(s, str) else s[""])[:80]} for k, s, _ in tasks[30:33]])
