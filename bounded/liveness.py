"""C04, allocation validator (bounded over programs, complete per program): for ONE compilation, the instruction list that
the real assign_registers receives is observed twice - with the virtual register names it gets and with the physical names
it leaves - and a liveness analysis over the virtual names decides whether two values that are live at the same time were
given the same physical register.

No change of /repo is needed: the harness rebinds `generate_code.assign_registers` (a module-level name) to a recording
wrapper around the real function for the duration of one compile_code call.

Control flow: labels, `j`, branches (`b..`), fall-through; calls are summarised per procedure (see `analyse`), so no
call/return path is considered that the program cannot take.  A definition of virtual register d (mapped to physical p)
while another virtual v with the same physical register is live after the instruction is a clobber.  The analysis is a
may-analysis on the real control flow, so it is independent of the values the program happens to compute:
a clobber that needs particular sensor values to show up in the effects is still found."""
from __future__ import annotations

import re

VIRT = re.compile(r"__register\.\d+_?")


def _name(x):
    ce = getattr(x, "code_expr", None)
    if ce is None and hasattr(x, "value"):
        return _name(x.value)
    return ce if isinstance(ce, str) else None


def capture(sources, opts):
    """-> (result, rows) ; rows[i] = dict(op, out_v, out_p, ins_v, ins_p, label, target, text)  or rows None if nothing was recorded"""
    from stationeers_pytrapic import generate_code as G
    from stationeers_pytrapic.compiler import CompileOptions, compile_code

    rec = {}
    real = G.assign_registers

    def wrapper(data, code):
        before = []
        for ins in code:
            out_v = _name(ins.output) if ins.output is not None else None
            ins_v = [(_name(i) if getattr(i, "is_register", False) or hasattr(i, "code_expr") else None) for i in ins.inputs]
            before.append((out_v, ins_v))
        r = real(data, code)
        rows = []
        for ins, (out_v, ins_v) in zip(code, before):
            out_p = _name(ins.output) if ins.output is not None else None
            ins_p = [(_name(i) if getattr(i, "is_register", False) or hasattr(i, "code_expr") else None) for i in ins.inputs]
            raw = [getattr(i, "value", i) for i in ins.inputs]
            rows.append({"op": ins.op, "out_v": out_v, "out_p": out_p, "ins_v": ins_v, "ins_p": ins_p,
                         "raw": [x if isinstance(x, (str, int, float)) else None for x in raw]})
        rec["rows"] = rows
        return r

    G.assign_registers = wrapper
    try:
        res = compile_code(dict(sources) if isinstance(sources, dict) else sources, CompileOptions(**opts))
    finally:
        G.assign_registers = real
    return res, rec.get("rows")


BRANCH1 = re.compile(r"^b(r)?(eq|ne|lt|le|gt|ge|ap|na|dns|dse|nan|eqz|nez|ltz|lez|gtz|gez|apz|naz|dnvl|dnvs)(al)?$")


def analyse(rows):
    """-> list of clobber descriptions (empty = the allocation is consistent with liveness on this program)

    Interprocedural liveness with call summaries (no unrealizable call/return paths):
      * procedures = entry labels of `jal` (and `b..al`) targets, plus the main code starting at line 0; inside a procedure a
        call falls through, `j ra` is an exit;
      * UE(f) = virtual registers read in f (or in what f calls) before f defines them: they are read by every call of f;
      * LA(f) = virtual registers live right after some call of f, plus LA of the calling procedure: they are live at every
        exit of f, hence wherever in f an exit is reachable without a redefinition;
      * a definition of virtual d -> physical p with another virtual v -> p in its live-out set is a clobber."""
    n = len(rows)
    labels = {r["op"][:-1]: i for i, r in enumerate(rows) if r["op"].endswith(":")}

    def target(r):
        t = r["raw"][-1] if r["raw"] else None
        return labels.get(t) if isinstance(t, str) else None

    succ = [[] for _ in range(n)]
    call_at = {}   # call index -> callee entry
    is_ret = [False] * n
    for i, r in enumerate(rows):
        op = r["op"]
        nxt = [i + 1] if i + 1 < n else []
        if op.endswith(":"):
            succ[i] = nxt
        elif op == "j":
            t = r["raw"][0] if r["raw"] else None
            if t == "ra" or (r["ins_p"] and r["ins_p"][0] == "ra"):
                is_ret[i] = True
            elif isinstance(t, str) and t in labels:
                succ[i] = [labels[t]]
        elif op == "jal":
            t = target(r)
            if t is not None:
                call_at[i] = t
            succ[i] = nxt
        elif op == "jr":
            return []  # relative jumps are not produced before label removal; do not guess
        elif BRANCH1.match(op):
            t = target(r)
            if op.endswith("al"):
                if t is not None:
                    call_at[i] = t
                succ[i] = nxt
            else:
                succ[i] = nxt + ([t] if t is not None else [])
        else:
            succ[i] = nxt
    entries = sorted(set(call_at.values()) | {0})
    body = {}
    for e in entries:
        seen, stack = set(), [e]
        while stack:
            k = stack.pop()
            if k in seen:
                continue
            seen.add(k)
            stack.extend(succ[k])
        body[e] = seen
    use = [set(v for v in r["ins_v"] if isinstance(v, str) and VIRT.fullmatch(v)) for r in rows]
    dfn = [r["out_v"] if isinstance(r["out_v"], str) and VIRT.fullmatch(r["out_v"]) else None for r in rows]
    phys = {}
    for r in rows:
        for v, p in [(r["out_v"], r["out_p"])] + list(zip(r["ins_v"], r["ins_p"])):
            if isinstance(v, str) and VIRT.fullmatch(v) and isinstance(p, str):
                phys.setdefault(v, set()).add(p)

    def solve(exit_live, ue):
        """intra-procedural liveness for every procedure body; exit_live[e] = live set at the exits of procedure e"""
        live_in = {}
        live_out = {}
        for e in entries:
            li = {k: set() for k in body[e]}
            lo = {k: set() for k in body[e]}
            order = sorted(body[e], reverse=True)
            changed = True
            while changed:
                changed = False
                for k in order:
                    out = set(exit_live.get(e, ())) if is_ret[k] else set()
                    for s2 in succ[k]:
                        out |= li[s2]
                    inn = (out - ({dfn[k]} if dfn[k] else set())) | use[k]
                    if k in call_at:
                        inn |= ue.get(call_at[k], set())
                    if out != lo[k] or inn != li[k]:
                        lo[k], li[k] = out, inn
                        changed = True
            live_in[e], live_out[e] = li, lo
        return live_in, live_out

    # upward-exposed uses of every procedure (exits carry nothing), to a fixpoint over the call graph
    ue = {e: set() for e in entries}
    for _ in range(len(entries) + 2):
        li, _lo = solve({}, ue)
        new = {e: set(li[e][e]) for e in entries}
        if new == ue:
            break
        ue = new
    # values live across the calls of each procedure
    la = {e: set() for e in entries}
    for _ in range(2 * len(entries) + 4):
        li, lo = solve(la, ue)
        new = {e: set() for e in entries}
        for e in entries:
            for k in body[e]:
                if k in call_at:
                    new[call_at[k]] |= lo[e][k] | la[e]
        if new == la:
            break
        la = new
    li, lo = solve(la, ue)
    problems = []
    # recursion: a value that is live across a call which can re-enter the calling procedure is overwritten by the inner
    # activation if that activation defines the same virtual register (same register by construction)
    callees = {e: {call_at[k] for k in body[e] if k in call_at} for e in entries}

    def reach(e):
        seen, stack = set(), list(callees[e])
        while stack:
            q = stack.pop()
            if q in seen:
                continue
            seen.add(q)
            stack.extend(callees.get(q, ()))
        return seen

    reach_of = {e: reach(e) for e in entries}
    for e in entries:
        if e not in reach_of[e]:
            continue
        defs_in_cycle = {dfn[k] for q in reach_of[e] | {e} if e in reach_of.get(q, set()) | {q} for k in body[q] if dfn[k]}
        for k in sorted(body[e]):
            if k in call_at and (call_at[k] == e or e in reach_of[call_at[k]]):
                hit = sorted(v for v in lo[e][k] if v in defs_in_cycle)
                if hit:
                    problems.append(f"line {k} ({rows[k]['op']} ...) re-enters the procedure at line {e} while {hit[0]} is live across the call: the inner activation writes the same register")
                    break
    for v, ps in phys.items():
        if len(ps) > 1:
            problems.append(f"virtual register {v} is mapped to several physical registers {sorted(ps)}")
    seen_lines = set()
    for e in entries:
        for k in sorted(body[e]):
            d = dfn[k]
            if not d or d not in phys or k in seen_lines:
                continue
            p = next(iter(phys[d]))
            for v in lo[e][k]:
                if v != d and p in phys.get(v, ()):
                    seen_lines.add(k)
                    problems.append(f"line {k} ({rows[k]['op']} {rows[k]['out_p']} ...) writes {p} for {d} while {v}, also held in {p}, is still live")
                    break
    return problems
