"""C05: the label -> line-number loop of CompilerPassGatherCode.remove_labels under contract, for texts of EVERY length.

What is verified is cut out of the real method on every run: the prologue assignments of `label_map`, `i_line`, `new_code`
and the `for line in code.splitlines():` loop that fills `label_map` (the first phase of remove_labels).  The second phase
(regular-expression substitution of the label names) is outside SMT reach and stays bounded (checks/C05.py).

Lemma carried (from the property: a jump to a label must land on the instruction that follows the label's definition):
after the loop, for lines L(0..n) of the input text,
  * new_code is exactly the lines that are not dropped label definitions, in order        (kept_lines_preserved_in_order)
  * every dropped label is a key of label_map                                               (every_dropped_label_is_mapped)
  * label_map[s] is the number of kept lines before some definition line of s              (mapped_value_counts_kept_lines_before_the_definition)
  * and that number is the index, in new_code, of the first kept line after the definition (target_is_the_following_instruction)
where `dropped label definition` is the property's reading: the comment-free, stripped text ends in ':' , the name before
the ':' is not empty and is not in keep_labels.

Encoding (mini VC generator of this module, stated in full):
  * lines are values of an uninterpreted sort Text; L : Int -> Text is the result of code.splitlines() (builtin contract:
    a list; its length n >= 0 is symbolic).
  * every str operation the loop applies is a pure function of its receiver and constant arguments (builtin contract) and
    becomes an uninterpreted function named after the operation and its constants:  x.m(c..) -> m_<m>_<c..>(x),
    x[i] -> idx_<i>(x), x[a:b] -> slice_<a>_<b>(x), truthiness of a str -> nonempty(x), `x in keep_labels` -> inkeep(x).
    The spec side uses the same names for the property's reading, so code that applies different operations gets
    different functions and the obligations fail.
  * label_map = (domain array, value array) over Text; new_code = (length, array Int -> Text); i_line an Int.
  * ghost (proof only): defline : Text -> Int, set to the loop index at the statement `label_map[..] = ..`.
  * K(j) = number of kept lines among L(0..j): K(0) = 0 and the unfolding K(k+1) = K(k) + (0 if dropped(k) else 1) is added
    at the iteration index only; facts about other indices come from the invariant (induction) or the two lemmas.
Python semantics assumed: left-to-right evaluation, `and` short-circuit, `X if C else Y`, list.append, dict item store,
`+=` on int; integers mathematical (Python ints are)."""
from __future__ import annotations

import ast
import time

import z3

from pyvc import extract as X
from pyvc.report import DISCHARGED, UNDECIDED, VIOLATED, Ob
from pyvc.smt import check_valid
from pyvc.values import Unsupported

REL = "generate_code.py"
QUAL = "CompilerPassGatherCode.remove_labels"
TARGET = "generate_code.CompilerPassGatherCode.remove_labels@label_map_loop"

INT, BOOL = z3.IntSort(), z3.BoolSort()
T = z3.DeclareSort("Text")
L = z3.Function("line_at", INT, T)
K = z3.Function("kept_before", INT, INT)
_UF = {}


def uf(name, *sorts):
    if name not in _UF:
        _UF[name] = z3.Function(name, *sorts)
    return _UF[name]


def t_fun(name):
    return uf(name, T, T)


def t_pred(name):
    return uf(name, T, BOOL)


# ------------------------------------------------------------------------------------ the property's reading (spec side)
def s_cline(x):
    return t_fun("m_strip_()")(t_fun("idx_0")(t_fun("m_split_('#',)")(x)))


def s_label(x):
    return t_fun("slice_None_-1")(s_cline(x))


def s_dropped(x):
    return z3.And(t_pred("m_endswith_(':',)")(s_cline(x)), t_pred("nonempty")(s_label(x)), z3.Not(t_pred("inkeep")(s_label(x))))


def dropped(j):
    return s_dropped(L(j))


def lab(j):
    return s_label(L(j))


# ------------------------------------------------------------------------------------ extraction
def block():
    f = X.find_function(X.module_ast(REL), QUAL)
    loops = [(i, s) for i, s in enumerate(f.body) if isinstance(s, ast.For) and any(isinstance(n, ast.Subscript) and isinstance(n.ctx, ast.Store) and ast.unparse(n.value) == "label_map" for n in ast.walk(s))
             and ast.unparse(s.iter) == "code.splitlines()"]
    if len(loops) != 1:
        raise Unsupported(f"sidecar out of date: expected one top-level `for .. in code.splitlines():` loop storing into label_map in remove_labels (found {len(loops)})")
    pos, loop = loops[0]
    if loop.orelse or not isinstance(loop.target, ast.Name):
        raise Unsupported("sidecar out of date: loop has an else part / a pattern target")
    init = {}
    for s in f.body[:pos]:
        written = {n.id for n in ast.walk(s) if isinstance(n, ast.Name) and isinstance(n.ctx, ast.Store)}
        if isinstance(s, ast.Assign) and len(s.targets) == 1 and isinstance(s.targets[0], ast.Name) and s.targets[0].id in ("label_map", "i_line", "new_code"):
            init[s.targets[0].id] = ast.unparse(s.value)
            continue
        bad = written & {"label_map", "i_line", "new_code", "code"}
        called = {ast.unparse(n.func.value) for n in ast.walk(s) if isinstance(n, ast.Call) and isinstance(n.func, ast.Attribute)}
        if bad or called & {"label_map", "new_code"}:
            raise Unsupported(f"sidecar out of date: statement at line {s.lineno} before the loop touches {sorted(bad or called)}")
    if init != {"label_map": "{}", "i_line": "0", "new_code": "[]"}:
        raise Unsupported(f"sidecar out of date: prologue initialisations are {init}")
    return f, loop


# ------------------------------------------------------------------------------------ mini symbolic executor of the loop body
class St:
    def __init__(self, env, pc):
        self.env, self.pc = dict(env), list(pc)

    def fork(self, cond):
        s = St(self.env, self.pc)
        s.pc.append(cond)
        return s


def _const(n):
    if isinstance(n, ast.Constant):
        return n.value
    if isinstance(n, ast.UnaryOp) and isinstance(n.op, ast.USub) and isinstance(n.operand, ast.Constant):
        return -n.operand.value
    raise Unsupported(f"non-constant argument {ast.unparse(n)!r} of a str operation")


def as_text(v, what):
    if v[0] == "text":
        return v[1]
    if v[0] == "opt":  # callers have established that the value is not None (checked where it matters)
        return v[2]
    raise Unsupported(f"{what}: expected a str value, got {v[0]}")


def truth(v):
    if v[0] == "bool":
        return v[1]
    if v[0] == "text":
        return t_pred("nonempty")(v[1])
    if v[0] == "opt":
        return z3.And(z3.Not(v[1]), t_pred("nonempty")(v[2]))
    if v[0] == "int":
        return v[1] != 0
    if v[0] == "none":
        return z3.BoolVal(False)
    raise Unsupported(f"truth value of {v[0]}")


def ev(st, n):
    if isinstance(n, ast.Name):
        if n.id not in st.env:
            raise Unsupported(f"name {n.id!r} is not a variable of the loop")
        return st.env[n.id]
    if isinstance(n, ast.Constant):
        if n.value is None:
            return ("none",)
        if isinstance(n.value, bool):
            return ("bool", z3.BoolVal(n.value))
        if isinstance(n.value, int):
            return ("int", z3.IntVal(n.value))
        raise Unsupported(f"constant {n.value!r}")
    if isinstance(n, ast.Call) and isinstance(n.func, ast.Name) and n.func.id == "len" and len(n.args) == 1:
        v = ev(st, n.args[0])
        if v[0] == "text":
            return ("int", uf("len", T, INT)(v[1]))
        if v[0] != "list":
            raise Unsupported("len() of a non-list")
        return ("int", v[1])
    if isinstance(n, ast.Call) and isinstance(n.func, ast.Attribute) and not n.keywords:
        recv = ev(st, n.func.value)
        args = tuple(_const(a) for a in n.args)
        name = f"m_{n.func.attr}_{args!r}"
        x = as_text(recv, ast.unparse(n))
        if n.func.attr in ("endswith", "startswith", "isdigit", "isalpha", "isidentifier", "isspace"):
            return ("bool", t_pred(name)(x))
        return ("text", t_fun(name)(x))
    if isinstance(n, ast.Subscript):
        recv = as_text(ev(st, n.value), ast.unparse(n))
        if isinstance(n.slice, ast.Slice):
            lo = None if n.slice.lower is None else _const(n.slice.lower)
            hi = None if n.slice.upper is None else _const(n.slice.upper)
            if n.slice.step is not None:
                raise Unsupported("slice step")
            return ("text", t_fun(f"slice_{lo}_{hi}")(recv))
        return ("text", t_fun(f"idx_{_const(n.slice)}")(recv))
    if isinstance(n, ast.IfExp):
        c = truth(ev(st, n.test))
        a, b = ev(st, n.body), ev(st, n.orelse)
        if a[0] == "text" and b[0] == "none":
            return ("opt", z3.Not(c), a[1])
        if a[0] == "none" and b[0] == "text":
            return ("opt", c, b[1])
        if a[0] == "text" and b[0] == "text":
            return ("text", z3.If(c, a[1], b[1]))
        raise Unsupported(f"conditional expression over {a[0]} / {b[0]}")
    if isinstance(n, ast.BoolOp):
        ts = [truth(ev(st, v)) for v in n.values]  # all operands here are free of side effects and of exceptions
        return ("bool", z3.And(*ts) if isinstance(n.op, ast.And) else z3.Or(*ts))
    if isinstance(n, ast.UnaryOp) and isinstance(n.op, ast.Not):
        return ("bool", z3.Not(truth(ev(st, n.operand))))
    if isinstance(n, ast.Compare) and len(n.ops) == 1:
        a, b = ev(st, n.left), ev(st, n.comparators[0])
        op = n.ops[0]
        if isinstance(op, (ast.In, ast.NotIn)):
            if b[0] == "set":
                r = t_pred("inkeep")(as_text(a, ast.unparse(n)))
            elif b[0] in ("map", "aset"):
                r = z3.Select(b[1], as_text(a, ast.unparse(n)))
            elif b[0] == "text":  # membership in a str / list value: a pure function of both
                r = uf("contains", T, T, BOOL)(b[1], as_text(a, ast.unparse(n)))
            else:
                raise Unsupported(f"membership in {b[0]}")
            return ("bool", z3.Not(r) if isinstance(op, ast.NotIn) else r)
        if isinstance(op, (ast.Is, ast.IsNot)) and b[0] == "none":
            r = a[1] if a[0] == "opt" else z3.BoolVal(a[0] == "none")
            return ("bool", z3.Not(r) if isinstance(op, ast.IsNot) else r)
        if a[0] == "int" and b[0] == "int":
            import operator as o

            tab = {ast.Lt: o.lt, ast.LtE: o.le, ast.Gt: o.gt, ast.GtE: o.ge, ast.Eq: o.eq, ast.NotEq: o.ne}
            if type(op) in tab:
                return ("bool", tab[type(op)](a[1], b[1]))
    if isinstance(n, ast.BinOp) and isinstance(n.op, (ast.Add, ast.Sub)):
        a, b = ev(st, n.left), ev(st, n.right)
        if isinstance(n.op, ast.Sub) and a[0] == "aset" and b[0] == "aset":
            d = z3.FreshConst(z3.ArraySort(T, BOOL), "setdiff")
            sv = z3.Const("s!d", T)
            st.pc.append(z3.ForAll([sv], z3.Select(d, sv) == z3.And(z3.Select(a[1], sv), z3.Not(z3.Select(b[1], sv))), patterns=[z3.Select(d, sv)]))
            return ("aset", d, a[2])
        if a[0] == "int" and b[0] == "int":
            return ("int", a[1] + b[1] if isinstance(n.op, ast.Add) else a[1] - b[1])
    raise Unsupported(f"expression {ast.unparse(n)!r} at line {getattr(n, 'lineno', '?')}")


def run(st, stmts, k):
    """-> list of final states (paths)"""
    if not stmts:
        return [st]
    s, rest = stmts[0], stmts[1:]
    if isinstance(s, ast.Assign) and len(s.targets) == 1:
        tg = s.targets[0]
        v = ev(st, s.value)
        if isinstance(tg, ast.Name):
            if tg.id in ("label_map", "new_code", "keep_labels", "code"):
                raise Unsupported(f"rebinding of {tg.id} inside the loop")
            st.env[tg.id] = v
            return run(st, rest, k)
        if isinstance(tg, ast.Subscript) and isinstance(tg.value, ast.Name) and st.env.get(tg.value.id, ("",))[0] == "map":
            key = ev(st, tg.slice)
            if key[0] == "opt":
                r, _, _ = check_valid(st.pc, z3.Not(key[1]), 5.0, second_opinion=False)
                if r != "valid":
                    raise Unsupported("the key stored into label_map may be None")
            kt = as_text(key, "label_map key")
            if v[0] != "int":
                raise Unsupported("label_map value is not an int")
            _, dom, val, dl = st.env[tg.value.id]
            # ghost: remember the defining line of the key
            st.env[tg.value.id] = ("map", z3.Store(dom, kt, True), z3.Store(val, kt, v[1]), z3.Store(dl, kt, k))
            st.env["__ghost_fired__"] = ("bool", z3.BoolVal(True))
            return run(st, rest, k)
    if isinstance(s, ast.AugAssign) and isinstance(s.target, ast.Name) and isinstance(s.op, (ast.Add, ast.Sub)):
        a, b = ev(st, s.target), ev(st, s.value)
        if a[0] == "int" and b[0] == "int":
            st.env[s.target.id] = ("int", a[1] + b[1] if isinstance(s.op, ast.Add) else a[1] - b[1])
            return run(st, rest, k)
    if isinstance(s, ast.Expr) and isinstance(s.value, ast.Call) and isinstance(s.value.func, ast.Attribute) and isinstance(s.value.func.value, ast.Name):
        recv = st.env.get(s.value.func.value.id)
        if recv and recv[0] == "list" and s.value.func.attr == "append" and len(s.value.args) == 1:
            x = as_text(ev(st, s.value.args[0]), "appended value")
            st.env[s.value.func.value.id] = ("list", recv[1] + 1, z3.Store(recv[2], recv[1], x))
            return run(st, rest, k)
    if isinstance(s, ast.If):
        c = truth(ev(st, s.test))
        return run(st.fork(c), list(s.body) + rest, k) + run(st.fork(z3.Not(c)), list(s.orelse) + rest, k)
    if isinstance(s, ast.Pass):
        return run(st, rest, k)
    if isinstance(s, ast.Continue):
        return [st]  # end of this iteration
    if isinstance(s, ast.Expr) and isinstance(s.value, ast.Call) and isinstance(s.value.func, ast.Attribute) and isinstance(s.value.func.value, ast.Name) and s.value.func.attr == "add" and len(s.value.args) == 1:
        name = s.value.func.value.id
        recv = st.env.get(name)
        if recv and recv[0] == "aset":
            x = as_text(ev(st, s.value.args[0]), "added value")
            st.env[name] = ("aset", z3.Store(recv[1], x, True), z3.Store(recv[2], x, k))  # recv[2]: ghost witness (the loop index that added x)
            st.env["__ghost_fired__"] = ("bool", z3.BoolVal(True))
            return run(st, rest, k)
    if isinstance(s, ast.For) and isinstance(s.target, ast.Name) and not s.orelse:
        it = ev(st, s.iter)
        b = s.body
        # for-each rule: `for x in S: if c(x): U.add(x)` with U != S and c not reading U  ==>  U' = U | {x in S : c(x)}
        # (the body's effect for one element does not depend on the order of iteration nor on the other elements)
        if (it[0] == "aset" and len(b) == 1 and isinstance(b[0], ast.If) and not b[0].orelse and len(b[0].body) == 1 and isinstance(b[0].body[0], ast.Expr)
                and isinstance(b[0].body[0].value, ast.Call) and ast.unparse(b[0].body[0].value.func).endswith(".add") and ast.unparse(b[0].body[0].value.args[0]) == s.target.id):
            uname = ast.unparse(b[0].body[0].value.func.value)
            names = {m.id for m in ast.walk(b[0].test) if isinstance(m, ast.Name)}
            if uname in names or uname == ast.unparse(s.iter) or st.env.get(uname, ("",))[0] != "aset":
                raise Unsupported("for-each rule: the condition reads the set being extended")
            sv = z3.Const("s!e", T)
            inner = St(dict(st.env, **{s.target.id: ("text", sv)}), [])
            c = truth(ev(inner, b[0].test))
            if inner.pc:
                raise Unsupported("for-each rule: condition with side conditions")
            _, udom, uwit = st.env[uname]
            nd, nw = z3.FreshConst(z3.ArraySort(T, BOOL), uname), z3.FreshConst(z3.ArraySort(T, INT), uname + "_wit")
            hit = z3.And(z3.Select(it[1], sv), c)
            st.pc.append(z3.ForAll([sv], z3.Select(nd, sv) == z3.Or(z3.Select(udom, sv), hit), patterns=[z3.Select(nd, sv)]))
            st.pc.append(z3.ForAll([sv], z3.Select(nw, sv) == z3.If(hit, k, z3.Select(uwit, sv)), patterns=[z3.Select(nw, sv)]))
            st.env[uname] = ("aset", nd, nw)
            st.env["__ghost_fired__"] = ("bool", z3.BoolVal(True))
            return run(st, rest, k)
    raise Unsupported(f"statement {ast.unparse(s).splitlines()[0]!r} at line {s.lineno} is outside the subset of this loop contract")


# ------------------------------------------------------------------------------------ invariants (functions of the state at loop index k)
def _q(vs, body, pats):
    return z3.ForAll(vs, body, patterns=pats)


def invariants(k, env):
    _, n_new, a_new = env["new_code"]
    _, dom, val, dl = env["label_map"]
    i_line = env["i_line"][1]
    j = z3.Int("j!q")
    s = z3.Const("s!q", T)
    return {
        "len_new_code_is_kept_count": n_new == K(k),
        "i_line_is_kept_count": i_line == K(k),
        "kept_count_nonnegative": _q([j], z3.Implies(z3.And(0 <= j, j <= k), K(j) >= 0), [K(j)]),
        "kept_lines_before_are_below_the_count": _q([j], z3.Implies(z3.And(0 <= j, j < k, z3.Not(dropped(j))), K(j) < K(k)), [K(j)]),
        "kept_lines_preserved_in_order": _q([j], z3.Implies(z3.And(0 <= j, j < k, z3.Not(dropped(j))), z3.Select(a_new, K(j)) == L(j)), [K(j)]),
        "mapped_value_counts_kept_lines_before_the_definition": _q([s], z3.Implies(z3.Select(dom, s), z3.And(0 <= z3.Select(dl, s), z3.Select(dl, s) < k, dropped(z3.Select(dl, s)), lab(z3.Select(dl, s)) == s,
                                                                                   z3.Select(val, s) == K(z3.Select(dl, s)))), [z3.Select(dom, s)]),
        "every_dropped_label_is_mapped": _q([j], z3.Implies(z3.And(0 <= j, j < k, dropped(j)), z3.Select(dom, lab(j))), [L(j)]),
    }


def fresh_env(tag):
    return {
        "new_code": ("list", z3.Int(f"new_code_len!{tag}"), z3.Const(f"new_code!{tag}", z3.ArraySort(INT, T))),
        "label_map": ("map", z3.Const(f"label_map_dom!{tag}", z3.ArraySort(T, BOOL)), z3.Const(f"label_map_val!{tag}", z3.ArraySort(T, INT)), z3.Const(f"defline!{tag}", z3.ArraySort(T, INT))),
        "i_line": ("int", z3.Int(f"i_line!{tag}")),
        "keep_labels": ("set",),
    }


def _prove(obs, oid, pc, goal, timeout, detail=None):
    t0 = time.time()
    r, _, why = check_valid(pc, goal, timeout, want_model=False)
    ob = Ob(oid, DISCHARGED if r == "valid" else UNDECIDED, backend=(why if r == "valid" else "z3"), time_s=round(time.time() - t0, 3), target=TARGET, detail=dict(detail or {}))
    if r != "valid":
        ob.detail["reason"] = "solver: " + (str(why) if r == "unknown" else "NOPROOF z3: counter-model over the uninterpreted operations")
    obs.append(ob)
    return ob


def obligations(timeout=20.0):
    """-> (list[Ob], info)"""
    f, loop = block()
    obs = []
    n = z3.Int("n_lines")
    k = z3.Int("k")
    base = [n >= 0, K(0) == 0]
    # ---- vacuity guard: the hypotheses of the step are consistent
    env0 = fresh_env("h")
    inv0 = invariants(k, env0)
    hyp = base + [0 <= k, k < n] + list(inv0.values()) + [K(k + 1) == K(k) + z3.If(dropped(k), 0, 1)]
    r, _, why = check_valid(hyp, z3.BoolVal(False), 5.0, second_opinion=False)
    obs.append(Ob(f"{TARGET}#step_hypotheses_consistent[guard]", DISCHARGED if r != "valid" else UNDECIDED, target=TARGET,
                  detail={"note": "false is not derivable from invariant + loop condition by trigger-based instantiation"} if r != "valid" else {"reason": "the loop invariant is contradictory (vacuous proof)"}))
    # ---- init
    init_env = {"new_code": ("list", z3.IntVal(0), z3.K(INT, z3.Const("any_text", T))), "label_map": ("map", z3.K(T, z3.BoolVal(False)), z3.K(T, z3.IntVal(0)), z3.K(T, z3.IntVal(0))), "i_line": ("int", z3.IntVal(0)), "keep_labels": ("set",)}
    for name, g in invariants(z3.IntVal(0), init_env).items():
        _prove(obs, f"{TARGET}#{name}[init]", base, g, timeout)
    # ---- step: the real body, all paths
    st = St(dict(env0, **{loop.target.id: ("text", L(k))}), hyp)
    paths = run(st, list(loop.body), k)
    fired = sum(1 for p in paths if "__ghost_fired__" in p.env)
    if fired == 0:
        raise Unsupported("sidecar out of date: no path of the loop body stores into label_map (ghost update never fired)")
    feasible = []
    for p in paths:
        r, _, _ = check_valid(p.pc, z3.BoolVal(False), 5.0, second_opinion=False)
        if r != "valid":
            feasible.append(p)
    names = list(inv0)
    for name in names:
        goals = []
        for p in feasible:
            for must in ("new_code", "label_map", "i_line"):
                if p.env[must][0] != fresh_env("x")[must][0]:
                    raise Unsupported(f"{must} changes its type inside the loop")
            g = invariants(k + 1, p.env)[name]
            goals.append(z3.Implies(z3.And(*p.pc[len(hyp):]) if len(p.pc) > len(hyp) else z3.BoolVal(True), g))
        _prove(obs, f"{TARGET}#{name}[step]", hyp, z3.And(*goals), timeout, {"paths": len(feasible)})
    # ---- lemmas about K (induction on the upper index, lower index fixed)
    a, b, j = z3.Int("a"), z3.Int("b"), z3.Int("j!l")
    alld = lambda lo, hi: z3.ForAll([j], z3.Implies(z3.And(lo <= j, j < hi), dropped(j)), patterns=[L(j)])
    unfold = lambda x: K(x + 1) == K(x) + z3.If(dropped(x), 0, 1)
    _prove(obs, f"{TARGET}#lemma_dropped_run_keeps_count[base]", [], z3.Implies(alld(a, a), K(a) == K(a)), timeout)
    _prove(obs, f"{TARGET}#lemma_dropped_run_keeps_count[step]", [0 <= a, a <= b, z3.Implies(alld(a, b), K(b) == K(a)), unfold(b)], z3.Implies(alld(a, b + 1), K(b + 1) == K(a)), timeout)
    # ---- exit: k == n; postconditions from the property
    envx = fresh_env("x")
    invx = invariants(n, envx)
    pcx = base + list(invx.values())
    _, n_new, a_new = envx["new_code"]
    _, dom, val, dl = envx["label_map"]
    jq = z3.Int("j!p")
    sq = z3.Const("s!p", T)
    posts = {
        "kept_lines_preserved_in_order": z3.And(n_new == K(n), z3.ForAll([jq], z3.Implies(z3.And(0 <= jq, jq < n, z3.Not(dropped(jq))), z3.And(0 <= K(jq), K(jq) < n_new, z3.Select(a_new, K(jq)) == L(jq))))),
        "every_dropped_label_is_mapped": z3.ForAll([jq], z3.Implies(z3.And(0 <= jq, jq < n, dropped(jq)), z3.Select(dom, lab(jq)))),
        "mapped_value_counts_kept_lines_before_the_definition": z3.ForAll([sq], z3.Implies(z3.Select(dom, sq), z3.And(0 <= z3.Select(dl, sq), z3.Select(dl, sq) < n, dropped(z3.Select(dl, sq)), lab(z3.Select(dl, sq)) == sq, z3.Select(val, sq) == K(z3.Select(dl, sq))))),
    }
    for name, g in posts.items():
        _prove(obs, f"{TARGET}#{name}[exit]", pcx, g, timeout)
    # target_is_the_following_instruction: s0 mapped, j0 the first kept line after its definition d
    s0 = z3.Const("s0", T)
    j0 = z3.Int("j0")
    d = z3.Select(dl, s0)
    lemma_inst = z3.Implies(alld(d + 1, j0), K(j0) == K(d + 1))  # instance of the lemma proved above (a = d + 1, b = j0)
    pre = [z3.Select(dom, s0), d < j0, j0 < n, z3.Not(dropped(j0)), alld(d + 1, j0), lemma_inst, unfold(d)]
    _prove(obs, f"{TARGET}#target_is_the_following_instruction[exit]", pcx + pre, z3.And(0 <= z3.Select(val, s0), z3.Select(val, s0) < n_new, z3.Select(a_new, z3.Select(val, s0)) == L(j0)), timeout)
    info = dict(file=f"src/stationeers_pytrapic/{REL}", lines=[loop.lineno, loop.end_lineno], sha256_of_extracted_source=X.sha(ast.Module(body=[loop], type_ignores=[])), paths=len(feasible),
                track="U (loop invariant, 7 clauses; ghost defline; 2 lemmas about the kept-line count); str operations are uninterpreted functions named after the operation",
                extraction_drops=["the `if relative_numbers:` prologue (it only adds to keep_labels, which is an arbitrary set here)", "the substitution phase after the loop (regular expressions: bounded only)", "comments"])
    return obs, info


# ------------------------------------------------------------------------------------ native search (replay side)
def corpus():
    import itertools

    atoms = ["a:", "b:", "  a:  # c", "j a", "j b", "jal a", "beq r0 1 b", "", "# a:", "move r0 1", "yield", "  b:", "j a # x"]
    for r in (1, 2, 3, 4):
        for combo in itertools.product(atoms, repeat=r):
            if combo[-1] != "":  # a trailing empty line is where splitlines() and split("\n") differ: not part of the reading
                yield "\n".join(combo)


def native_search(clause):
    """Run the REAL remove_labels on small texts and compare with the property's reading (token-wise: a label operand is
    replaced by the index of the first instruction line after the label's definition; label lines disappear)."""
    import importlib

    G = importlib.import_module("stationeers_pytrapic.generate_code")
    from bounded.props import norm_line, spec_remove_labels

    for text in corpus():
        defs = [l.split("#")[0].strip() for l in text.split("\n")]
        names = [c[:-1] for c in defs if c.endswith(":") and c[:-1]]
        if len(set(names)) != len(names) or any(not nm.isidentifier() for nm in names):
            continue  # duplicate definitions / non-identifier labels are outside the lemma's reading
        try:
            got = G.CompilerPassGatherCode.remove_labels(None, text)
        except Exception as e:
            return {"code": text}, f"remove_labels raised {type(e).__name__}: {e}"
        want, idx = spec_remove_labels(text)
        gl = [norm_line(l) for l in got.split("\n")] if got else []
        wl = [norm_line(l) for l in want]
        # operands that name a label defined nowhere stay as they are in both
        if gl != wl and any(w.strip() for w in wl + gl):
            return {"code": text}, {"remove_labels_returned": got, "property_reading": "\n".join(want)}
    return None


def run_into(report, timeout=20.0):
    t0 = time.time()
    try:
        obs, info = obligations(timeout)
    except Unsupported as e:
        ob = Ob(f"{TARGET}#subset[extraction]", UNDECIDED, target=TARGET, detail={"reason": f"outside the verified subset: {e}"})
        found = native_search("subset")
        if found:
            ob = Ob(f"{TARGET}#target_is_the_following_instruction[exit]", VIOLATED, target=TARGET, witness=found[0], replayed=True,
                    detail={"observed": found[1], "reason": f"outside the verified subset: {e}", "witness_source": "native search of the contract on the real function"})
        report.add(ob)
        return
    for ob in obs:
        if ob.verdict == UNDECIDED and str(ob.detail.get("reason", "")).startswith("solver: NOPROOF"):
            found = native_search(ob.id)
            if found:
                ob.verdict, ob.replayed, ob.witness = VIOLATED, True, found[0]
                ob.detail["observed"] = found[1]
                ob.detail["witness_source"] = "native search of the contract on the real function (quantified VC: the solver gives no model)"
        report.add(ob)
    report.function(target=TARGET, wall_s=round(time.time() - t0, 2), **info)
