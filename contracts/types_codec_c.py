"""Sidecar contracts for types.encode_data / types.decode_data (property C18).

The two real functions are extracted from the working tree on every run.  json / zlib / base64 / UTF-8 are
external: their contracts are assumed (listed in the evidence) and modelled as uninterpreted functions
with exactly the axioms below.  What is proved is everything the repository adds around them: the
alphabet substitution, padding removal, padding restoration and inverse substitution, for texts of every
length and every padding class.
"""
from __future__ import annotations

import base64
import json
import random
import zlib

import z3

from pyvc import astr
from pyvc import extract as X
from pyvc import pysem as S
from pyvc.astr import VAStr
from pyvc.contract import Contract, KCustom, KOpaque
from pyvc.pysem import exc
from pyvc.speclib import uninterpreted
from pyvc.state import Raise
from pyvc.values import *

TYPES = "types.py"
INT = z3.IntSort()
JSON = z3.DeclareSort("Opq_json")
TEXT = z3.DeclareSort("Opq_text")
BYTES = z3.DeclareSort("Opq_bytes")

F_DUMPS = z3.Function("json_dumps", JSON, TEXT)
F_LOADS = z3.Function("json_loads", TEXT, JSON)
F_LOADS_OK = z3.Function("json_loads_ok", TEXT, z3.BoolSort())
F_DUMPS_NA = z3.Function("json_dumps_non_ascii", JSON, TEXT)  # dumps(..., ensure_ascii=False)
F_ASCII = z3.Function("text_is_ascii", TEXT, z3.BoolSort())
F_ENCODABLE = z3.Function("text_has_no_lone_surrogate", TEXT, z3.BoolSort())
F_UTF8 = z3.Function("utf8_encode", TEXT, BYTES)
F_UNUTF8 = z3.Function("utf8_decode", BYTES, TEXT)
F_UTF8_OK = z3.Function("utf8_valid", BYTES, z3.BoolSort())
F_COMPRESS = z3.Function("zlib_compress", BYTES, BYTES)
F_DECOMPRESS = z3.Function("zlib_decompress", BYTES, BYTES)
F_DECOMPRESS_OK = z3.Function("zlib_decompress_ok", BYTES, z3.BoolSort())
F_B64LEN = z3.Function("b64_len", BYTES, INT)
F_B64PAD = z3.Function("b64_pad", BYTES, INT)
F_B64ARR = z3.Function("b64_chars", BYTES, astr.ARR)
F_B64DEC = z3.Function("b64_decode", INT, astr.ARR, BYTES)
F_B64DEC_OK = z3.Function("b64_decode_ok", INT, astr.ARR, z3.BoolSort())

ALPHA64 = "ABCDEFGHIJKLMNOPQRSTUVWXYZabcdefghijklmnopqrstuvwxyz0123456789+/"
URLSAFE = "ABCDEFGHIJKLMNOPQRSTUVWXYZabcdefghijklmnopqrstuvwxyz0123456789-_"

ASSUMED = [
    "json: loads(dumps(d)) == d for every JSON-serialisable dictionary d (whatever the formatting keywords); dumps output is pure ASCII unless ensure_ascii=False; loads raises json.JSONDecodeError (only) on other text",
    "UTF-8: str.encode() succeeds on ASCII text (in general: on text without lone surrogates, else UnicodeEncodeError); bytes.decode(str.encode(t)) == t; decode raises UnicodeDecodeError (only) on invalid bytes",
    "zlib: decompress(compress(y)) == y; decompress raises zlib.error (only) on other input",
    "base64.b64encode(y): ASCII text whose length is a multiple of 4, = body + '='*k with k in {0,1,2}, body over A-Za-z0-9+/",
    "base64.b64decode(t) == y whenever t equals b64encode(y) character for character; raises binascii.Error (only) on text that is not valid base64",
]


def library_axioms(eng):
    d, t, y = z3.Const("d", JSON), z3.Const("t", TEXT), z3.Const("y", BYTES)
    i = z3.Const("i", INT)
    eng.axiom(z3.ForAll([d], z3.And(F_LOADS_OK(F_DUMPS(d)), F_LOADS(F_DUMPS(d)) == d, F_ASCII(F_DUMPS(d))), patterns=[F_DUMPS(d)]))
    eng.axiom(z3.ForAll([d], z3.And(F_LOADS_OK(F_DUMPS_NA(d)), F_LOADS(F_DUMPS_NA(d)) == d), patterns=[F_DUMPS_NA(d)]))
    eng.axiom(z3.ForAll([t], z3.Implies(F_ASCII(t), F_ENCODABLE(t)), patterns=[F_ASCII(t)]))
    eng.axiom(z3.ForAll([t], z3.And(F_UTF8_OK(F_UTF8(t)), F_UNUTF8(F_UTF8(t)) == t), patterns=[F_UTF8(t)]))
    eng.axiom(z3.ForAll([y], z3.And(F_DECOMPRESS_OK(F_COMPRESS(y)), F_DECOMPRESS(F_COMPRESS(y)) == y), patterns=[F_COMPRESS(y)]))
    n, k, a = F_B64LEN(y), F_B64PAD(y), F_B64ARR(y)
    eng.axiom(z3.ForAll([y], z3.And(n >= 0, n % 4 == 0, k >= 0, k <= 2, k <= n,
                                    z3.Implies(k >= 1, a[n - 1] == 61), z3.Implies(k >= 2, a[n - 2] == 61)),
                        patterns=[F_B64LEN(y), F_B64PAD(y), F_B64ARR(y)]))
    in_alpha = z3.Or(z3.And(a[i] >= 65, a[i] <= 90), z3.And(a[i] >= 97, a[i] <= 122), z3.And(a[i] >= 47, a[i] <= 57), a[i] == 43)
    eng.axiom(z3.ForAll([y, i], z3.And(z3.Implies(z3.And(i >= 0, i < n - k), in_alpha),
                                       z3.Implies(z3.And(i >= n - k, i < n), a[i] == 61)), patterns=[a[i]]))
    for s in ASSUMED:
        eng.use("assumed library contract: " + s)


# ------------------------------------------------------------------------------- symbolic library (world)
def _opq(v, tag):
    if isinstance(v, VOpq) and v.tag == tag:
        return v.t
    raise Unsupported(f"library call on {v!r}, expected opaque {tag}")


def h_dumps(eng, st, args, kw, origin):
    if len(args) != 1:
        raise Unsupported("json.dumps with positional options")
    ascii_out = True
    for k, v in kw.items():
        if k not in ("ensure_ascii", "separators", "sort_keys", "indent") or not isinstance(v, (VC, VTuple)):
            raise Unsupported(f"json.dumps keyword {k}")
        if k == "ensure_ascii":
            ascii_out = bool(v.py)
        if k == "separators":
            seps = tuple(x.py for x in v.items) if isinstance(v, VTuple) else v.py
            if seps is not None and (len(seps) != 2 or seps[0].strip() != "," or seps[1].strip() != ":"):
                raise Unsupported("json.dumps with non-JSON separators")
    f = F_DUMPS if ascii_out else F_DUMPS_NA
    return [(st, VOpq("text", f(_opq(args[0], "json"))))]


def _partial(eng, st, ok, val, exc_cls, origin):
    outs = []
    s1 = eng.branch(st, ok)
    if s1 is not None:
        outs.append((s1, val))
    s0 = eng.branch(st, z3.Not(ok))
    if s0 is not None:
        outs.append((s0, exc(exc_cls, "", origin)))
    return outs


def h_loads(eng, st, args, kw, origin):
    t = _opq(args[0], "text")
    return _partial(eng, st, F_LOADS_OK(t), VOpq("json", F_LOADS(t)), "json.JSONDecodeError", origin)


def h_compress(eng, st, args, kw, origin):
    # the optional compression level does not affect decompress(compress(y)) == y
    if len(args) > 2 or any(k != "level" for k in kw):
        raise Unsupported("zlib.compress options")
    return [(st, VOpq("bytes", F_COMPRESS(_opq(args[0], "bytes"))))]


def h_decompress(eng, st, args, kw, origin):
    y = _opq(args[0], "bytes")
    return _partial(eng, st, F_DECOMPRESS_OK(y), VOpq("bytes", F_DECOMPRESS(y)), "zlib.error", origin)


def h_b64encode(eng, st, args, kw, origin):
    y = _opq(args[0], "bytes")
    st.ghost["b64_inputs"] = tuple(st.ghost.get("b64_inputs", ())) + (y,)
    return [(st, VAStr(F_B64LEN(y), F_B64ARR(y), is_bytes=True))]


def h_b64decode(eng, st, args, kw, origin):
    t = args[0]
    if not isinstance(t, VAStr):
        raise Unsupported(f"b64decode of {t!r}")
    y, i = z3.Const("yb", BYTES), z3.Const("ib", INT)
    same = z3.And(t.n == F_B64LEN(y),
                  z3.ForAll([i], z3.Implies(z3.And(i >= 0, i < t.n), t.a[i] == F_B64ARR(y)[i]), patterns=[t.a[i], F_B64ARR(y)[i]]))
    st.assume(z3.ForAll([y], z3.Implies(same, z3.And(F_B64DEC_OK(t.n, t.a), F_B64DEC(t.n, t.a) == y)), patterns=[F_B64LEN(y)]))
    return _partial(eng, st, F_B64DEC_OK(t.n, t.a), VOpq("bytes", F_B64DEC(t.n, t.a)), "binascii.Error", origin)


def opq_text_attr(eng, st, obj, name, origin):
    if name == "encode":
        def enc(e, s, a, k, o):
            if k or len(a) > 1 or (a and not (isinstance(a[0], VC) and str(a[0].py).lower().replace("-", "") == "utf8")):
                raise Unsupported("str.encode with a non-UTF-8 codec")
            return _partial(e, s, F_ENCODABLE(obj.t), VOpq("bytes", F_UTF8(obj.t)), "UnicodeEncodeError", o)

        return [(st, VFun("builtin", fn=enc, name="str.encode"))]
    raise Unsupported(f"text.{name}")


def opq_bytes_attr(eng, st, obj, name, origin):
    if name == "decode":
        def dec(e, s, a, k, o):
            return _partial(e, s, F_UTF8_OK(obj.t), VOpq("text", F_UNUTF8(obj.t)), "UnicodeDecodeError", o)

        return [(st, VFun("builtin", fn=dec, name="bytes.decode"))]
    raise Unsupported(f"bytes.{name}")


def codec_world():
    w = {"__astr__": True}
    w["module:json"] = VMod("json", {"dumps": VFun("builtin", fn=h_dumps, name="json.dumps"), "loads": VFun("builtin", fn=h_loads, name="json.loads")})
    w["module:zlib"] = VMod("zlib", {"compress": VFun("builtin", fn=h_compress, name="zlib.compress"), "decompress": VFun("builtin", fn=h_decompress, name="zlib.decompress")})
    w["module:base64"] = VMod("base64", {"b64encode": VFun("builtin", fn=h_b64encode, name="b64encode"), "b64decode": VFun("builtin", fn=h_b64decode, name="b64decode")})
    w["__opqattr__:text"] = opq_text_attr
    w["__opqattr__:bytes"] = opq_bytes_attr
    return w


# ------------------------------------------------------------------------------- specification
def _b64_parts_sym(eng, st, args, kwargs, origin):
    y = _opq(args[0], "bytes")
    return [(st, VTuple([VAStr(F_B64LEN(y), F_B64ARR(y)), VInt(F_B64PAD(y))]))]


@uninterpreted(_b64_parts_sym)
def b64_parts(y):
    """(standard base64 text of the bytes y, number of trailing '=')"""
    b = base64.b64encode(y).decode()
    return b, len(b) - len(b.rstrip("="))


def _decodes_to_sym(eng, st, args, kwargs, origin):
    y, d = _opq(args[0], "bytes"), _opq(args[1], "json")
    raw = F_DECOMPRESS(y)
    txt = F_UNUTF8(raw)
    return [(st, S.vbool(z3.And(F_DECOMPRESS_OK(y), F_UTF8_OK(raw), F_LOADS_OK(txt), F_LOADS(txt) == d)))]


@uninterpreted(_decodes_to_sym)
def decodes_to(y, d):
    """the bytes y are a zlib stream of the UTF-8 JSON text of d"""
    try:
        return json.loads(zlib.decompress(y).decode()) == d
    except Exception:
        return False


def urlsafe(c):
    return "-" if c == "+" else ("_" if c == "/" else c)


def spells(y, e):
    """e is the URL-safe, unpadded spelling of the standard base64 text of y"""
    b, k = b64_parts(y)
    return len(e) == len(b) - k and all(e[i] == urlsafe(b[i]) for i in range(len(b) - k))


def enc_post_payload(data, result):
    # result = (returned text, bytes handed to base64) -- see result_view / native_view
    return spells(result[1], result[0]) and decodes_to(result[1], data)


def enc_post_alphabet(data, result):
    return all(ch in "ABCDEFGHIJKLMNOPQRSTUVWXYZabcdefghijklmnopqrstuvwxyz0123456789-_" for ch in result[0])


def dec_pre(encoded, y, d):
    return spells(y, encoded) and decodes_to(y, d)


def dec_post(encoded, y, d, result):
    return result == d


# ------------------------------------------------------------------------------- native side
def native_encode(data):
    from stationeers_pytrapic import types as T

    e = T.encode_data(data)
    # reference reading of the payload (independent of decode_data): RFC 4648 URL-safe alphabet, padding restored
    try:
        y = base64.urlsafe_b64decode(e + "=" * (-len(e) % 4)) if isinstance(e, str) else b""
    except Exception:
        y = b""
    return e, y


def native_decode(encoded):
    from stationeers_pytrapic import types as T

    return T.decode_data(encoded)


def sample_dicts(seed, n=400):
    """JSON dictionaries whose compressed length hits every residue class mod 3 (every padding class)."""
    rnd = random.Random(seed)
    out = [{}, {"code": ""}, {"code": "a"}, {"code": "ab"}, {"code": "abc"}, {"code": "ä€\U0001F600", "options": {"compact": True}},
           {"code": "x\ud83d"}, {"code": "\udc00"}]
    # large payloads (whole programs with libraries): JSON text sizes around 2**16 and well beyond it
    line = "db.Setting = d0.Setting + 1  # tick\n"
    for size in (4000, 65500, 65536, 65600, 200000):
        out.append({"code": (line * (size // len(line) + 1))[:size]})
    out.append({"code": "# " + "温度" * 6000 + "\n", "modules": {"lib": line * 500}})
    pools = ["abc", "+/=-_", "\n\t \"\\", "é中\U0001F680", "0123456789", "a\ud83d", "\udc00b"]
    for i in range(n):
        ln = i % 97
        pool = pools[i % len(pools)] + "xyz"
        src = "".join(rnd.choice(pool) for _ in range(ln))
        d = {"code": src}
        if i % 3 == 0:
            d["options"] = {"compact": bool(i & 1), "remove_labels": bool(i & 2), "n": i, "f": i / 7}
        if i % 11 == 0:
            d["modules"] = {"lib": src[::-1]}
        out.append(d)
    return out


def _seed():
    import os

    return int(os.environ.get("VERIF_SEED", "0") or 0)


def search_encode(clause):
    for d in sample_dicts(_seed()):
        try:
            r = native_encode(d)
        except Exception as e:
            return {"data": d}, f"raised {type(e).__name__}: {e}"
        if clause.startswith("exc."):
            continue
        ok = enc_post_payload(d, r) if clause == "spells_payload" else enc_post_alphabet(d, r)
        if not ok:
            return {"data": d}, repr(r[0])
    return None


def search_decode(clause):
    for d in sample_dicts(_seed()):
        try:
            y = zlib.compress(json.dumps(d).encode())
        except UnicodeEncodeError:
            continue
        b, k = b64_parts(y)
        e = "".join(urlsafe(c) for c in b[: len(b) - k])
        assert dec_pre(e, y, d)
        try:
            r = native_decode(e)
        except Exception as ex:
            return {"encoded": e, "y": "zlib.compress(json.dumps(d).encode())", "d": d}, f"raised {type(ex).__name__}: {ex}"
        if r != d:
            return {"encoded": e, "y": "zlib.compress(json.dumps(d).encode())", "d": d}, repr(r)
    return None


def _fun(name):
    def build(eng):
        node = X.find_function(X.module_ast(TYPES), name)
        return X.vfun(node, "types." + name)

    return build


K_JSON = KOpaque("json")
K_BYTES = KOpaque("bytes")
K_ASTR = KCustom("str(array model, any length)", lambda st, p: astr.fresh_astr(st, p),
                 lambda m, v: "".join(chr(m.eval(v.a[i], model_completion=True).as_long() % 0x110000) for i in range(min(64, m.eval(v.n, model_completion=True).as_long()))))


def _enc_view(eng, st, v):
    ys = st.ghost.get("b64_inputs", ())
    if len(ys) != 1:
        raise Unsupported(f"encode_data calls base64.b64encode {len(ys)} times (sidecar expects exactly one)")
    return VTuple([v, VOpq("bytes", ys[0])])


def codec_contracts():
    w = codec_world()
    desc = lambda n: X.describe(X.find_function(X.module_ast(TYPES), n), TYPES)
    enc = Contract(
        name="types.encode_data", fun=_fun("encode_data"), params=[("data", [K_JSON])],
        post={"spells_payload": enc_post_payload, "urlsafe_alphabet": enc_post_alphabet},
        raises={}, native=native_encode, world=w, axioms=library_axioms, search=search_encode, result_view=_enc_view,
        describe=dict(desc("encode_data"), track="U (loop-free; quantified string facts, e-matching)", extraction_drops=["docstring", "type annotations"]),
    )
    dec = Contract(
        name="types.decode_data", fun=_fun("decode_data"), params=[("encoded", [K_ASTR]), ("y", [K_BYTES]), ("d", [K_JSON])], ghost=("y", "d"),
        pre=dec_pre, post={"returns_original": dec_post},
        raises={}, native=native_decode, world=w, axioms=library_axioms, search=search_decode,
        describe=dict(desc("decode_data"), track="U (loop-free; quantified string facts, e-matching)", extraction_drops=["docstring", "type annotations"]),
    )
    return [enc, dec]


def roundtrip_lemma(rep):
    """decode_data(encode_data(d)) == d from the two contracts: encode's postcondition is decode's precondition."""
    import time

    from pyvc.loops import eval_pred
    from pyvc.report import DISCHARGED, UNDECIDED, Ob
    from pyvc.smt import check_valid
    from pyvc.state import State
    from pyvc.symexec import Engine

    t0 = time.time()
    eng = Engine(world=codec_world())
    library_axioms(eng)
    st = State()
    d, y, e = K_JSON.make(st, "d"), K_BYTES.make(st, "y"), K_ASTR.make(st, "e")
    hyp = eval_pred(eng, st, enc_post_payload, [d, VTuple([e, y])])
    goal = eval_pred(eng, st, dec_pre, [e, y, d])
    r, _, why = check_valid(eng.axioms + st.pc + [hyp], goal, 20)
    rep.add(Ob("types.roundtrip#encode_post_implies_decode_pre", DISCHARGED if r == "valid" else UNDECIDED,
               detail={"lemma": "forall d: decode_data(encode_data(d)) == d follows from types.encode_data#spells_payload, types.decode_data#returns_original and this implication"}
               if r == "valid" else {"reason": "solver: " + str(why)}, target="types.encode_data;types.decode_data", time_s=time.time() - t0))


def native_sweep(rep, seed, n):
    """Bounded stand-in (never counted as proved): the real pair on n dictionaries."""
    import time

    from pyvc.report import HELD, VIOLATED, Ob
    from stationeers_pytrapic import types as T

    t0 = time.time()
    bad = None
    ds = [d for d in sample_dicts(seed, n)]
    seen = set()
    for d in ds:
        try:
            e = T.encode_data(d)
            ok = T.decode_data(e) == d and all(c in URLSAFE for c in e)
            seen.add(len(e) % 4)
        except Exception as ex:
            ok, e = False, f"raised {type(ex).__name__}: {ex}"
        if not ok:
            bad = (d, e)
            break
    ob = Ob("types.roundtrip#native_sweep", HELD if bad is None else VIOLATED, kind="bounded", backend="native",
            bound=f"{len(ds)} dictionaries, source lengths 0..96 plus payloads of 4 kB .. 200 kB, ASCII/Unicode/lone-surrogate pools", time_s=time.time() - t0,
            detail={"cases": len(ds), "encoded_length_residues_mod4_seen": sorted(seen)}, target="types.encode_data;types.decode_data")
    if bad is not None:
        ob.witness, ob.replayed = {"data": bad[0]}, True
        ob.detail["observed"] = bad[1]
    rep.add(ob)
    rep.bounded["evaluations"] += len(ds)
    rep.bounded["distinct_nontrivial"] += len({json.dumps(d, sort_keys=True) for d in ds if d})
    rep.bounded["rule"] = "dictionaries from a seeded generator; non-trivial = non-empty dictionary; distinct by canonical JSON"
    rep.samples.extend(ds[6:9])
