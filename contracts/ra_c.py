"""C06: compile_pass.FunctionData.add_ra_instructions under a bounded native contract.

The real method is called on every callee skeleton the code generator can produce up to a size bound (label, argument
pops / gets, straight-line instructions, calls, if-blocks, early returns `j <name>end`, the end label, `j ra`), in both
calling conventions.  The postcondition is evaluated by an abstract interpreter over all paths of the resulting code:
at every `j ra` the return address is the one the function was entered with, everything the function pushed beyond its
result has been popped, and the arguments are gone.  Functions that do not both call and return must be left unchanged."""
from __future__ import annotations

import itertools
import time
import types as _t

from pyvc.report import HELD, VIOLATED, Ob


def skeleton_bodies(max_stmts):
    """bodies as nested lists over: 'op' (any straight-line instruction), 'call', 'ret' (early return), ('if', body),
    'inl' (the body of an inlined callee whose name ends with this function's name, e.g. pre_update inlined into update:
    a conditional early return 'j pre.<name>end' and the label 'pre.<name>end:', as compile_function lays inlined code out)"""
    atoms = ["op", "call", "ret", "inl"]

    def gen(n, depth):
        if n == 0:
            yield []
            return
        for first in atoms:
            for rest in gen(n - 1, depth):
                yield [first] + rest
        if depth > 0:
            for k in range(1, n):
                for inner in gen(k, depth - 1):
                    for rest in gen(n - 1 - k, depth):
                        yield [("if", inner)] + rest

    def live(body):
        # statements after a return in the same block are dead code: the generator of this repository never relies on them
        for k, st in enumerate(body):
            if st == "ret" and k != len(body) - 1:
                return False
            if isinstance(st, tuple) and not live(st[1]):
                return False
        return True

    for n in range(0, max_stmts + 1):
        for b in gen(n, 2):
            if live(b):
                yield b


def build(name, nargs, body, returns_value, final_return, pushpop, qualified):
    """IC10Instruction list as compile_function / handle_return lay it out (labels use '_' -> '.')"""
    from stationeers_pytrapic.types import IC10Instruction as I
    from stationeers_pytrapic.types import IC10Register as R

    label = qualified.replace("_", ".")
    code = [I(f"{label}:")]
    for i in range(nargs):
        code.append(I("pop", [], R(f"a{i}", code_expr=f"r{i}"), indent=1) if pushpop else I("get", ["db", 510 - i], R(f"a{i}", code_expr=f"r{i}"), indent=1))
    counter = [0]

    def emit(stmts, last_of_function):
        for idx, s in enumerate(stmts):
            is_last = last_of_function and idx == len(stmts) - 1
            if s == "op":
                code.append(I("add", [1, 2], R("t", code_expr="r9")))
            elif s == "call":
                code.append(I("jal", ["callee"]))
            elif s == "inl":
                counter[0] += 1
                lb, il = f"lbelse{counter[0]}", f"pre.{label}"
                code.append(I("ble", [1, 3, lb], indent=1))
                code.append(I("j", [il + "end"], indent=1))
                code.append(I(f"{lb}:"))
                code.append(I("s", ["db", "Setting", 1], indent=1))
                code.append(I(f"{il}end:"))
            elif s == "ret":
                if returns_value:
                    code.append(I("push", [7]) if pushpop else I("put", ["db", 511, 7]))
                if not is_last:
                    code.append(I("j", [label + "end"], indent=-1))
            else:
                counter[0] += 1
                lb = f"lbelse{counter[0]}"
                code.append(I("beq", [1, 2, lb]))
                emit(s[1], False)
                code.append(I(f"{lb}:"))

    emit(body, True)
    if final_return and (not body or body[-1] != "ret"):
        if returns_value:
            code.append(I("push", [7]) if pushpop else I("put", ["db", 511, 7]))
    code.append(I(f"{label}end:"))
    code.append(I("j", ["ra"], indent=1))
    return code


def run_real(code, name, pushpop):
    from stationeers_pytrapic.compile_pass import CompileOptions, FunctionData

    node = _t.SimpleNamespace(name=name)
    fd = FunctionData(node, None, code=list(code))
    fd.add_ra_instructions(CompileOptions(use_push_pop_functions=pushpop))
    return fd.code


def text(code):
    out = []
    for i in code:
        try:
            out.append(i.to_string().strip())
        except Exception:
            out.append(f"{i.op} ?")
    return out


def check_paths(code, nargs, returns_value, pushpop, max_paths=4000):
    """abstract interpretation of every path: -> None or a description of the first violating path"""
    lines = [(i.op, [getattr(x, "value", x) for x in i.inputs], i.output) for i in code]
    labels = {op[:-1]: k for k, (op, _, _) in enumerate(lines) if op.endswith(":")}
    start_stack = tuple(f"arg{i}" for i in range(nargs)) if pushpop else ()
    work = [(0, "RA0", start_stack, ())]
    seen = 0
    while work:
        pc, ra, stack, trail = work.pop()
        steps = 0
        while True:
            steps += 1
            if pc >= len(lines) or steps > 400:
                return f"path {list(trail)} runs off the end of the function without 'j ra'"
            op, ins, out = lines[pc]
            trail = trail + (pc,)
            if op.endswith(":"):
                pc += 1
                continue
            if op == "push":
                v = ins[0]
                v = getattr(v, "code_expr", v)
                stack = stack + (("ra:" + ra) if v == "ra" else "result",)
                pc += 1
            elif op == "pop":
                if not stack:
                    return f"path {list(trail)}: pop from an empty frame at line {pc} ({text(code)[pc]})"
                top, stack = stack[-1], stack[:-1]
                if getattr(out, "code_expr", None) == "ra":
                    if not str(top).startswith("ra:"):
                        return f"path {list(trail)}: 'pop ra' at line {pc} takes {top!r} from the stack, not the saved return address"
                    ra = top[3:]
                elif str(top).startswith("ra:") or top == "result":
                    return f"path {list(trail)}: line {pc} ({text(code)[pc]}) pops {top!r} into an argument register"
                pc += 1
            elif op == "jal":
                ra = "CLOBBERED"
                pc += 1
            elif op == "j":
                t = ins[0]
                t = getattr(t, "code_expr", t)
                if t == "ra":
                    if ra != "RA0":
                        return f"path {list(trail)}: 'j ra' at line {pc} with ra = {ra} (the return address of the serving call was lost)"
                    want = ("result",) if (returns_value and pushpop and "result" in stack) else ()
                    if stack != want:
                        return f"path {list(trail)}: at 'j ra' the frame holds {list(stack)}, expected {list(want)}"
                    break
                if t not in labels:
                    return f"path {list(trail)}: jump to undefined label {t!r}"
                pc = labels[t]
            elif op.startswith("b"):
                t = ins[-1]
                work.append((labels[t], ra, stack, trail))
                pc += 1
            else:
                pc += 1
        seen += 1
        if seen > max_paths:
            break
    return None


def ra_obligations(tier, seed):
    q = tier == "quick"
    t0 = time.time()
    n, bad, unchanged_bad = 0, None, None
    names = [("f", "f"), ("update_display", "update_display"), ("step", "lib.step")]
    for body in skeleton_bodies(4 if q else 6):
        for nargs, returns_value, final_return, pushpop, (name, qualified) in itertools.product((0, 2), (False, True), (False, True), (False, True), names[: (2 if q else 3)]):
            if pushpop and "." in qualified:
                continue  # push/pop + module-qualified label: recorded known finding C13-pushpop-library-exit (replayed by C13 / C06)
            if not final_return and not _has_ret(body):
                final_return = True  # every function ends in its end label; a body without return just falls to it
            code = build(name, nargs, body, returns_value, final_return, pushpop, qualified)
            before = text(code)
            try:
                after = run_real(code, name, pushpop)
            except Exception as e:
                bad = (body, nargs, returns_value, pushpop, qualified, before, None, f"add_ra_instructions raised {type(e).__name__}: {e}")
                break
            n += 1
            calls = any(i.op.endswith("al") for i in code)
            if not calls:
                if text(after) != before and unchanged_bad is None:
                    unchanged_bad = (body, nargs, returns_value, pushpop, qualified, before, text(after), "a function without calls was modified")
                continue
            r = check_paths(after, nargs, returns_value, pushpop)
            if r:
                bad = (body, nargs, returns_value, pushpop, qualified, before, text(after), r)
                break
        if bad:
            break
    obs = []
    bound = f"{n} callee skeletons: bodies of <= {4 if q else 6} statements over (instruction, call, early return, if-block, inlined callee with a suffix-sharing name), 0/2 arguments, with/without result, both conventions, plain and qualified names"
    for oid, b in (("compile_pass.FunctionData.add_ra_instructions#return_address_and_frame_restored_on_every_path", bad),
                   ("compile_pass.FunctionData.add_ra_instructions#functions_without_calls_unchanged", unchanged_bad)):
        ob = Ob(oid, HELD if not b else VIOLATED, kind="bounded", backend="native", target="compile_pass.FunctionData.add_ra_instructions", bound=bound, time_s=time.time() - t0)
        if b:
            ob.witness, ob.replayed = {"body": repr(b[0]), "nargs": b[1], "returns_value": b[2], "use_push_pop_functions": b[3], "function": b[4], "code_before": b[5]}, True
            ob.detail["observed"] = b[7]
            ob.detail["code_after"] = b[6]
        obs.append(ob)
    return obs, n


def _has_ret(body):
    return any(s == "ret" or (isinstance(s, tuple) and _has_ret(s[1])) for s in body)
