"""C01: the comparison-suffix tables of utils.py select the right branch / set instruction for every pair of finite doubles.
Rows are read from the AST of the working tree on every run; a missing or extra row is reported."""
from __future__ import annotations

import ast
import time

import z3

from pyvc import extract as X
from pyvc.contract import KFloat
from pyvc.loops import eval_pred
from pyvc.report import DISCHARGED, UNDECIDED, VIOLATED, Ob
from pyvc.smt import check_valid
from pyvc.state import State
from pyvc.symexec import Engine
from pyvc.values import VC
from spec.ic10_ops import branch_taken

OPS = ["==", "!=", "<", "<=", ">", ">="]


def cmp_op(op, x, y):
    if op == "==":
        return x == y
    if op == "!=":
        return x != y
    if op == "<":
        return x < y
    if op == "<=":
        return x <= y
    if op == ">":
        return x > y
    return x >= y


def neg_post(suffix, op, x, y):
    # `b<neg suffix> x y else_label` must be taken exactly when the source condition x op y is false
    return branch_taken(suffix, x, y) == (not cmp_op(op, x, y))


def pos_post(suffix, op, x, y):
    # `s<suffix> r x y` sets 1 exactly when x op y; `b<suffix>` (negated test) is taken exactly when x op y
    return branch_taken(suffix, x, y) == cmp_op(op, x, y)


def native_check(fn, suffix, op):
    import itertools

    vals = [0.0, -0.0, 1.0, -1.0, 0.5, 2.0, 1e300, -1e300, 5e-324, 3.0]
    for x, y in itertools.product(vals, vals):
        if not fn(suffix, op, x, y):
            return {"x": x, "y": y}
    return None


def suffix_obligations():
    obs = []
    tree = X.module_ast("utils.py")
    for table, post, clause in (("get_negated_comparison_suffix", neg_post, "branch_taken_iff_condition_false"),
                                ("get_comparison_suffix", pos_post, "holds_iff_condition_true")):
        tgt = f"utils.{table}"
        try:
            rows = X.dict_rows(X.returned_dict(X.find_function(tree, table)))
        except Exception as e:
            obs.append(Ob(f"{tgt}#subset", UNDECIDED, detail={"reason": f"outside verified subset: {e}"}, target=tgt))
            continue
        for op in OPS:
            oid = f"{tgt}{{{op}}}#{clause}"
            t0 = time.time()
            node = rows.get(op)
            if not (isinstance(node, ast.Constant) and isinstance(node.value, str)):
                obs.append(Ob(oid, VIOLATED if node is None else UNDECIDED, target=tgt, detail={"observed": "row missing" if node is None else "row is not a string constant"},
                              witness={"op": op}, replayed=node is None))
                continue
            suffix = node.value
            if suffix not in ("eq", "ne", "lt", "le", "gt", "ge"):
                obs.append(Ob(oid, VIOLATED, target=tgt, witness={"op": op, "suffix": suffix}, replayed=True, detail={"observed": f"suffix {suffix!r} is not an IC10 condition code"}))
                continue
            eng, st = Engine(), State()
            x, y = KFloat().make(st, "x"), KFloat().make(st, "y")
            goal = eval_pred(eng, st, post, [VC(suffix), VC(op), x, y])
            r, model, why = check_valid(st.pc, goal, 20)
            if r == "valid":
                obs.append(Ob(oid, DISCHARGED, target=tgt, time_s=time.time() - t0, detail={"suffix": suffix}))
            elif r == "invalid":
                w = native_check(post, suffix, op)
                obs.append(Ob(oid, VIOLATED, target=tgt, time_s=time.time() - t0, witness=dict(w or {}, op=op, suffix=suffix), replayed=w is not None,
                              detail={"observed": f"table maps {op!r} to {suffix!r}; for the witness operands the instruction decides the opposite of the source condition"}))
            else:
                obs.append(Ob(oid, UNDECIDED, target=tgt, detail={"reason": "solver: " + str(why)}))
        extra = set(rows) - set(OPS)
        obs.append(Ob(f"{tgt}#no_unspecified_rows", DISCHARGED if not extra else UNDECIDED, kind="scan", backend="scan", target=tgt,
                      detail={} if not extra else {"reason": f"sidecar out of date: rows {sorted(extra)} have no contract"}))
    return obs
