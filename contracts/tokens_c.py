"""Sidecar contracts for the token-level functions (C08; `_e` and compute_hash#numeric also carry C03):
utils.calc_hash, types._apply_output_mode, types.compute_hash, types.compute_string, utils._e, utils.format_enum.
All code under contract is extracted from the working tree on every run."""
from __future__ import annotations

import os
import random

import z3

from pyvc import extract as X
from pyvc import pysem as S
from pyvc.contract import Contract, KConst, KCustom, KFloat, KInt, KIntFloat, KStr
from pyvc.loops import LoopSpec, eval_pred
from pyvc.pysem import exc
from pyvc.speclib import uninterpreted
from pyvc.state import Raise, fresh
from pyvc.values import *
from spec import tokens as T
from spec.tokens import crc32_signed, crc32_term

UTILS, TYPES = "utils.py", "types.py"
VERBOSE, COMPACT, NUMERIC = 0, 1, 2
MODES = [KConst(VERBOSE), KConst(COMPACT), KConst(NUMERIC)]


def _seed():
    return int(os.environ.get("VERIF_SEED", "0") or 0)


NAME_POOL = ["x", "Out", "abc", "a", "A", "H", "S", "(", ")", "Airlock Pump", "Tank (O2)", "HASH", "STR", "SASH\"x", "name)", "\"q\"",
             "ItemCableCoil", "ItemPlasticSheets", "StructureSolarPanel", "ü", "中文", "a b", "HA", "AH(", "x\")", "é)", "0", "-1", " ",
             "Potatos", "__register", "r0", "db", "lbwhile1", "S)", "\"", "\"\"", "HASH(\"x\")", "\"HASH(\"y\")\""]


def names(n=300):
    rnd = random.Random(_seed() + 11)
    out = list(NAME_POOL)
    # names whose checksum sits on the boundaries of the signed reinterpretation (forged: crc32 is invertible)
    from spec.crc32 import forge_ascii

    out += [s for s in (forge_ascii(t) for t in (0x80000000, 0x7FFFFFFF, 0x80000001, 0xFFFFFFFF, 0, 1, 0x100000000 - 0x80000000 - 1)) if s]
    alphabet = "HAS()\"xyzAB 09_-é"
    for i in range(n):
        out.append("".join(rnd.choice(alphabet) for _ in range(1 + i % 9)))
    return out


# ----------------------------------------------------------------------------------------- world
def h_crc32(eng, st, args, kw, origin):
    (b,) = args
    if isinstance(b, VC):
        import zlib

        return [(st, VC(zlib.crc32(b.py)))]
    if not isinstance(b, VBytes):
        return [(st, exc("TypeError", "a bytes-like object is required", origin))]
    eng.use("zlib.crc32(b) is the CRC-32 (IEEE 802.3) of b, in [0, 2**32) (cross-checked natively against spec/crc32.py)")
    return [(st, VInt(crc32_term(st, b.t)))]


def base_world():
    w = {}
    w["module:zlib"] = VMod("zlib", {"crc32": VFun("builtin", fn=h_crc32, name="zlib.crc32")})
    w["OutputMode"] = VMod("OutputMode", {"VERBOSE": VC(VERBOSE), "COMPACT": VC(COMPACT), "NUMERIC": VC(NUMERIC)})
    w["CompilerError"] = VType("CompilerError")
    w["utils"] = VMod("utils")
    w["global:utils._output_mode"] = VC(VERBOSE)
    return w


def real(rel, qual):
    return X.vfun(X.find_function(X.module_ast(rel), qual), f"{rel[:-3]}.{qual}")


def set_global_mode(eng, st, args):
    st.globals["utils._output_mode"] = args["g"]


# ----------------------------------------------------------------------------------------- calc_hash
def calc_hash_post(name, result):
    return result == crc32_signed(name)


def native_calc_hash(name):
    from stationeers_pytrapic import utils

    return utils.calc_hash(name)


def search_calc_hash(clause):
    for n in names():
        r = native_calc_hash(n)
        if not calc_hash_post(n, r):
            return {"name": n}, repr(r)
    return None


def callee_calc_hash():
    def apply(eng, st, args, kwargs, origin):
        (a,) = args
        if not S.is_strlike(a):
            return [(st, exc("AttributeError", "calc_hash of a non-string", origin))]
        eng.use("callee contract utils.calc_hash#equals_signed_crc32 (proved separately)")
        return eng.call(st, eng.spec_fun(crc32_signed), [a], {}, origin)

    return VFun("builtin", fn=apply, name="contract:utils.calc_hash")


# ----------------------------------------------------------------------------------------- _apply_output_mode
def eff_mode(output_mode, g):
    return g if output_mode is None else output_mode


def aom_post(num_value, string_value, output_mode, g, result):
    m = eff_mode(output_mode, g)
    if m == 0:
        return result == string_value
    if m == 2:
        return result == num_value
    return result == num_value or result == string_value


def aom_post_number_is_shorter(num_value, string_value, output_mode, g, result):
    # COMPACT picks the number only when it is the shorter spelling (layout, not meaning; kept to pin the rule)
    m = eff_mode(output_mode, g)
    return not (m == 1 and result == num_value) or len(str(num_value)) < len(string_value)


def native_aom(num_value, string_value, output_mode, g):
    from stationeers_pytrapic import types, utils

    old = utils._output_mode
    utils._output_mode = utils.OutputMode(g)
    try:
        return types._apply_output_mode(num_value, string_value, None if output_mode is None else utils.OutputMode(output_mode))
    finally:
        utils._output_mode = old


def callee_aom():
    """_apply_output_mode as seen by its callers: a result constrained by its (separately proved) postcondition."""

    def apply(eng, st, args, kwargs, origin):
        num, string = args[0], args[1]
        mode = args[2] if len(args) > 2 else kwargs.get("output_mode", VC(None))
        if not isinstance(mode, VC):
            raise Unsupported("symbolic output mode at a call of _apply_output_mode")
        g = st.globals.get("utils._output_mode", eng.world["global:utils._output_mode"])
        m = g if mode.py is None else mode
        if not isinstance(m, VC):
            raise Unsupported("symbolic global output mode")
        eng.use("callee contract types._apply_output_mode#post (proved separately)")
        if m.py == VERBOSE:
            return [(st, string)]
        if m.py == NUMERIC:
            return [(st, num)]
        return [(st.fork(), num), (st.fork(), string)]

    return VFun("builtin", fn=apply, name="contract:types._apply_output_mode")


# ----------------------------------------------------------------------------------------- compute_hash
def ch_pre(name, mode, g):
    return isinstance(name, str) and name != "" and not name.startswith("__register.")


def ch_post_token_means_its_hash(name, mode, g, result):
    """result = (verbose rendering, rendering under the mode in force)"""
    rv, rm = result
    m = eff_mode(mode, g)
    if not (isinstance(rv, str) and rv.startswith('HASH("') and rv.endswith('")') and len(rv) >= 8):
        return False
    if m == 0:
        return rm == rv
    if m == 2:
        return rm == crc32_signed(rv[6:-2])
    return rm == rv or rm == crc32_signed(rv[6:-2])


def plain_name(name):
    return (isinstance(name, str) and name != "" and not name.startswith("__register.")
            and not (name[0] == '"' and name[-1] == '"') and not (name.startswith('HASH("') and name.endswith('")')))


def chn_pre(name):
    return plain_name(name)


def chn_post(name, result):
    return result == crc32_signed(name)


def chv_post(name, result):
    return result == 'HASH("' + name + '")'


def ch_harness_fun(eng):
    import ast

    src = "def compute_hash_two_modes(name, mode):\n    return (compute_hash(name, 0), compute_hash(name, mode))\n"
    return X.vfun(ast.parse(src).body[0], "harness:compute_hash_two_modes")


def native_ch_two(name, mode, g):
    from stationeers_pytrapic import types, utils

    old = utils._output_mode
    utils._output_mode = utils.OutputMode(g)
    try:
        return (types.compute_hash(name, utils.OutputMode.VERBOSE), types.compute_hash(name, None if mode is None else utils.OutputMode(mode)))
    finally:
        utils._output_mode = old


def native_ch(mode):
    def f(name):
        from stationeers_pytrapic import types, utils

        return types.compute_hash(name, utils.OutputMode(mode))

    return f


def search_ch_two(clause):
    for n in names():
        for mode in (None, 0, 1, 2):
            for g in (0, 1):
                if not ch_pre(n, mode, g):
                    continue
                try:
                    r = native_ch_two(n, mode, g)
                except Exception as e:
                    return {"name": n, "mode": mode, "g": g}, f"raised {type(e).__name__}: {e}"
                if not ch_post_token_means_its_hash(n, mode, g, r):
                    return {"name": n, "mode": mode, "g": g}, repr(r)
    return None


def search_ch(mode, post):
    def s(clause):
        for n in names():
            if not plain_name(n):
                continue
            try:
                r = native_ch(mode)(n)
            except Exception as e:
                return {"name": n}, f"raised {type(e).__name__}: {e}"
            if not post(n, r):
                return {"name": n}, repr(r)
        return None

    return s


def callee_compute_hash_numeric():
    """compute_hash(s, OutputMode.NUMERIC) as seen by `_e`"""

    def apply(eng, st, args, kwargs, origin):
        name = args[0]
        mode = args[1] if len(args) > 1 else kwargs.get("output_mode", VC(None))
        if not (isinstance(mode, VC) and mode.py == NUMERIC):
            raise Unsupported("call of compute_hash with a mode other than NUMERIC (no callee contract for it here)")
        st.obligations.append((f"call:types.compute_hash.pre@{origin}", eval_pred(eng, st, chn_pre, [name])))
        eng.use("callee contract types.compute_hash#numeric_of_plain_name (proved separately)")
        return eng.call(st, eng.spec_fun(crc32_signed), [name], {}, origin)

    return VFun("builtin", fn=apply, name="contract:types.compute_hash")


# ----------------------------------------------------------------------------------------- _e
def e_spec(value):
    if isinstance(value, str):
        return crc32_signed(value[6:-2])
    return float(value)


def e_pre(value):
    if isinstance(value, str):
        return value.startswith('HASH("') and value.endswith('")') and len(value) >= 9 and plain_name(value[6:-2])
    return True


def e_post(value, result):
    return result == e_spec(value)


def native_e(value):
    from stationeers_pytrapic import utils

    return utils._e(value)


def search_e(clause):
    for n in names():
        if not plain_name(n):
            continue
        v = 'HASH("' + n + '")'
        if not e_pre(v):
            continue
        try:
            r = native_e(v)
        except Exception as ex:
            return {"value": v}, f"raised {type(ex).__name__}: {ex}"
        if not e_post(v, r):
            return {"value": v}, repr(r)
    for v in (0, 1, -1, 2.5, 10**15, True):
        r = native_e(v)
        if not e_post(v, r):
            return {"value": v}, repr(r)
    return None


# ----------------------------------------------------------------------------------------- compute_string
def _pack_sym(eng, st, args, kwargs, origin):
    """pack(s) for an array-string: the recursively defined big-endian packing, as an uninterpreted function of
    (characters, prefix length) with its two defining equations as axioms."""
    from pyvc import astr

    (s,) = args
    if isinstance(s, VC):
        return [(st, VC(T.pack_str(s.py)))]
    if not isinstance(s, astr.VAStr):
        raise Unsupported("pack of a native symbolic string")
    return [(st, VInt(pack_prefix(eng, s.a, s.n)))]


UF_PACK = z3.Function("spec_pack_prefix", z3.ArraySort(z3.IntSort(), z3.IntSort()), z3.IntSort(), z3.IntSort())


def pack_prefix(eng, arr, n):
    i = z3.Const("pk_i", z3.IntSort())
    ax0 = UF_PACK(arr, 0) == 0
    ax1 = z3.ForAll([i], z3.Implies(i >= 0, UF_PACK(arr, i + 1) == UF_PACK(arr, i) * 256 + arr[i]), patterns=[UF_PACK(arr, i + 1)])
    for ax in (ax0, ax1):
        if not any(z3.eq(ax, a) for a in eng.axioms):
            eng.axiom(ax)
    return UF_PACK(arr, n)


@uninterpreted(_pack_sym)
def pack(s):
    return T.pack_str(s)


def cs_pre(s, mode, g):
    return all(0 <= ord(ch) and ord(ch) < 256 for ch in s)


def cs_post(s, mode, g, result):
    m = eff_mode(mode, g)
    if m == 2:
        return not isinstance(result, str)
    if m == 0:
        return isinstance(result, str)
    return True


def cs_post_numeric(s, mode, g, result):
    m = eff_mode(mode, g)
    return isinstance(result, str) or result == pack(s)


def cs_inv(k, val, s):
    return val == pack_upto(s, k)


def _pack_upto_sym(eng, st, args, kwargs, origin):
    s, k = args
    return [(st, VInt(pack_prefix(eng, s.a, S.to_int_term(k))))]


@uninterpreted(_pack_upto_sym)
def pack_upto(s, k):
    return T.pack_str(s[:k])


def native_cs(s, mode, g):
    from stationeers_pytrapic import types, utils

    old = utils._output_mode
    utils._output_mode = utils.OutputMode(g)
    try:
        return types.compute_string(s, None if mode is None else utils.OutputMode(mode))
    finally:
        utils._output_mode = old


def search_cs(clause):
    rnd = random.Random(_seed())
    pool = ["", "A", "AB", "ABC", "ABCDEF", "a", "~", " ", "\x00", "\xff", "ON", "OFF", "Hello!"]
    pool += ["".join(chr(rnd.randrange(0, 256)) for _ in range(rnd.randrange(0, 9))) for _ in range(200)]
    for s in pool:
        for mode in (None, 0, 1, 2):
            for g in (0, 1):
                r = native_cs(s, mode, g)
                if not (cs_post_numeric(s, mode, g, r) and cs_post(s, mode, g, r)):
                    return {"s": s, "mode": mode, "g": g}, repr(r)
    return None


# ----------------------------------------------------------------------------------------- contracts
def token_contracts():
    from pyvc import astr

    cs = []
    w = base_world()
    desc = lambda rel, q, **kw: dict(X.describe(X.find_function(X.module_ast(rel), q), rel), extraction_drops=["type annotations"], **kw)

    cs.append(Contract(
        name="utils.calc_hash", fun=lambda eng: real(UTILS, "calc_hash"), params=[("name", [KStr()])],
        post={"equals_signed_crc32": calc_hash_post}, native=native_calc_hash, world=w, search=search_calc_hash,
        describe=desc(UTILS, "calc_hash", track="U (loop-free)")))

    cs.append(Contract(
        name="types._apply_output_mode", fun=lambda eng: real(TYPES, "_apply_output_mode"),
        params=[("num_value", [KInt()]), ("string_value", [KStr()]), ("output_mode", [KConst(None)] + MODES), ("g", MODES)], ghost=("g",),
        setup=set_global_mode, post={"post": aom_post, "number_only_if_shorter": aom_post_number_is_shorter}, native=native_aom, world=w,
        describe=desc(TYPES, "_apply_output_mode", track="U (loop-free)")))

    w2 = dict(w)
    w2["calc_hash"] = callee_calc_hash()
    w2["_apply_output_mode"] = callee_aom()
    w2["compute_hash"] = real(TYPES, "compute_hash")
    cs.append(Contract(
        name="types.compute_hash", fun=ch_harness_fun, params=[("name", [KStr()]), ("mode", [KConst(None)] + MODES), ("g", [KConst(VERBOSE), KConst(COMPACT)])],
        ghost=("g",), setup=set_global_mode, pre=ch_pre, post={"token_means_its_hash": ch_post_token_means_its_hash},
        native=native_ch_two, world=w2, search=search_ch_two, timeout=90.0,
        describe=desc(TYPES, "compute_hash", track="U (loop-free; two-run harness compute_hash(name, VERBOSE) / compute_hash(name, mode))")))
    cs.append(Contract(
        name="types.compute_hash{NUMERIC}", fun=lambda eng: X.vfun(__import__("ast").parse("def f(name):\n    return compute_hash(name, 2)\n").body[0], "harness:compute_hash_numeric"),
        params=[("name", [KStr()])], pre=chn_pre, post={"numeric_of_plain_name": chn_post}, native=native_ch(NUMERIC), world=w2,
        search=search_ch(NUMERIC, chn_post), timeout=90.0, describe=desc(TYPES, "compute_hash", track="U (loop-free)")))
    cs.append(Contract(
        name="types.compute_hash{VERBOSE}", fun=lambda eng: X.vfun(__import__("ast").parse("def f(name):\n    return compute_hash(name, 0)\n").body[0], "harness:compute_hash_verbose"),
        params=[("name", [KStr()])], pre=chn_pre, post={"verbose_of_plain_name": chv_post}, native=native_ch(VERBOSE), world=w2,
        search=search_ch(VERBOSE, chv_post), timeout=90.0, describe=desc(TYPES, "compute_hash", track="U (loop-free)")))

    w3 = dict(w)
    w3["compute_hash"] = callee_compute_hash_numeric()
    cs.append(Contract(
        name="utils._e", fun=lambda eng: real(UTILS, "_e"), params=[("value", [KFloat(), KIntFloat(), KStr()])],
        pre=e_pre, post={"post": e_post}, native=native_e, world=w3, search=search_e, timeout=90.0,
        describe=desc(UTILS, "_e", track="U (loop-free)")))

    # compute_string: unbounded, with the invariant  val == pack(s[:k])
    w4 = dict(w)
    w4["_apply_output_mode"] = callee_aom()
    k_astr = KCustom("str(array model, any length)", lambda st, p: astr.fresh_astr(st, p), None)
    cs.append(Contract(
        name="types.compute_string", fun=lambda eng: real(TYPES, "compute_string"),
        params=[("s", [k_astr]), ("mode", [KConst(None)] + MODES), ("g", [KConst(VERBOSE), KConst(COMPACT)])], ghost=("g",),
        setup=set_global_mode, pre=cs_pre, post={"number_is_big_endian_packing": cs_post_numeric, "mode_rule": cs_post},
        native=native_cs, world=w4, search=search_cs,
        loop_specs={"types.compute_string@for": LoopSpec(cs_inv, ["val", "s"])},
        describe=desc(TYPES, "compute_string", track="U (loop invariant val == pack(s[:k]); chars are bytes)")))
    return cs
