"""C04: register_assignment.assign_colors under contract.

Track K (bounded symbolic, DESIGN section 0): the REAL function is executed symbolically for every list of n <= N symbols
with fully symbolic lifetimes [start, stop); loops over the (concrete-length) lists are unrolled completely, so for each n
the case analysis is complete.  `sorted(symbols, key=start)` is an assumed external contract (a permutation, non-decreasing
in the key): because the postcondition is symmetric in the symbols, the input is taken in sorted order w.l.o.g."""
from __future__ import annotations

import ast

import z3

from pyvc import extract as X
from pyvc import pysem as S
from pyvc.contract import Contract, KCustom
from pyvc.state import fresh
from pyvc.values import *


def overlaps(a, b):
    # the two line ranges [start, stop) share a line
    return a.lifetime.start < a.lifetime.stop and b.lifetime.start < b.lifetime.stop and a.lifetime.start < b.lifetime.stop and b.lifetime.start < a.lifetime.stop


def colours_post(symbols, result):
    return all(all((not overlaps(result[i], result[j])) or result[i]._color != result[j]._color for j in range(i + 1, len(result))) for i in range(len(result)))


def colours_dense_post(symbols, result):
    # every symbol is coloured, colours are 0..m-1 without gaps (the caller indexes the free-register list with them)
    return all(s._color >= 0 for s in result) and all(s._color == 0 or any(t._color == s._color - 1 for t in result) for s in result)


def same_list_post(symbols, result):
    return len(result) == len(symbols)


def make_symbols(n):
    def mk(st, pname):
        items = []
        prev = None
        for i in range(n):
            a, b = fresh(f"start{i}", z3.IntSort()), fresh(f"stop{i}", z3.IntSort())
            if prev is not None:
                st.assume(prev <= a)  # sorted by start (w.l.o.g., see module docstring)
            prev = a
            rng = st.new_obj("range", {"start": VInt(a), "stop": VInt(b)})
            items.append(st.new_obj("IC10Register", {"lifetime": rng, "_color": VC(-1), "name": VC(f"s{i}")}))
        return st.new_list(items)

    def fm(model, v):
        return None

    return KCustom(f"{n} symbols with symbolic lifetimes", mk, fm)


def h_sorted(eng, st, args, kw, origin):
    eng.use("sorted(xs, key=f): a permutation of xs, non-decreasing in f (the symbolic input list is taken in that order w.l.o.g.; the postcondition is symmetric)")
    from pyvc.builtins_model import iter_items

    return [(st, st.new_list(iter_items(eng, st, args[0])))]


def native_colors(lifetimes):
    import types as _t

    from stationeers_pytrapic import register_assignment as RA

    syms = [_t.SimpleNamespace(lifetime=range(a, b), _color=-1, name=f"s{i}") for i, (a, b) in enumerate(lifetimes)]
    return RA.assign_colors(syms)


def native_post(res):
    for i in range(len(res)):
        for j in range(i + 1, len(res)):
            if set(res[i].lifetime) & set(res[j].lifetime) and res[i]._color == res[j]._color:
                return f"symbols {i} {list(res[i].lifetime)[:1]}..{res[i].lifetime.stop} and {j} {res[j].lifetime.start}..{res[j].lifetime.stop} share colour {res[i]._color}"
    cols = sorted({s._color for s in res})
    if res and cols != list(range(len(cols))):
        return f"colours {cols} are not 0..m-1"
    return None


def search_colors(clause):
    import itertools
    import os
    import random

    rnd = random.Random(int(os.environ.get("VERIF_SEED", "0") or 0))
    for n in range(1, 6):
        pts = range(0, 2 * n + 1)
        combos = list(itertools.product(pts, repeat=2))
        for _ in range(600 if n > 2 else 200):
            lts = [rnd.choice(combos) for _ in range(n)]
            try:
                r = native_colors(lts)
            except Exception as e:
                return {"lifetimes": lts}, f"raised {type(e).__name__}: {e}"
            bad = native_post(r)
            if bad:
                return {"lifetimes": lts}, bad
    return None


def color_contracts(max_n):
    f = X.find_function(X.module_ast("register_assignment.py"), "assign_colors")
    w = {"sorted": VFun("builtin", fn=h_sorted, name="sorted")}
    cs = []
    for n in range(0, max_n + 1):
        c = Contract(
            name=f"register_assignment.assign_colors[n={n}]", fun=lambda eng: X.vfun(f, "register_assignment.assign_colors"),
            params=[("symbols", [make_symbols(n)])],
            post={"overlapping_lifetimes_get_different_colours": colours_post, "colours_are_dense_from_zero": colours_dense_post, "returns_all_symbols": same_list_post},
            native=None, world=w, search=search_colors, timeout=60.0,
            describe=dict(X.describe(f, "register_assignment.py"), track=f"K(n={n}): complete case analysis for {n} symbols with symbolic lifetimes", extraction_drops=["type annotations", "comments"]))
        c.feas_timeout_ms = 500
        cs.append(c)
    return cs
