"""C04, track U: register_assignment.assign_colors for symbol lists of EVERY length.

The real function is executed symbolically once; its two loops are cut at their heads with the inductive invariants below
(DESIGN appendix A).  `symbols_sorted` is a symbolic-length sequence of records (start/stop: uninterpreted functions of the
index, `_color`: a heap array); `active`, `still_active`, `free_colors` are symbolic-length lists.  Ghost state (proof only,
never read by the code): aown / sown - which symbol owns an entry of active / still_active; heap fields slot / slot2 - where
a symbol's entry sits.  All obligations are quantified formulas discharged by trigger-based instantiation (MBQI off)."""
from __future__ import annotations

import z3

from pyvc import extract as X
from pyvc import pysem as S
from pyvc.contract import Contract, KCustom, KStr
from contracts.regalloc_c import search_colors
from pyvc.loops import LoopSpec
from pyvc.state import fresh
from pyvc.ulist import RecordSeq, SymSeq, install_records, new_list, seq_of
from pyvc.values import *
from pyvc.symexec import _select_patterns

INT = z3.IntSort()
START = z3.Function("lifetime_start", INT, INT)
STOP = z3.Function("lifetime_stop", INT, INT)


# ------------------------------------------------------------------------------------------- invariants
# outer loop, before iteration k (S = symbols_sorted; S[0..k) are coloured)
def o_shape(k, active, free_colors, next_color, S, aown):
    return k <= len(S) and len(aown) == len(active) and next_color >= 0


def o_active_owned(k, active, free_colors, next_color, S, aown):
    # every entry of active belongs to one processed symbol and mirrors its stop / colour; slot is the inverse of aown
    return all(0 <= aown[a] and aown[a] < k and active[a][0] == S[aown[a]].lifetime.stop and active[a][1] == S[aown[a]]._color and S[aown[a]].slot == a for a in range(len(active)))


def o_active_distinct(k, active, free_colors, next_color, S, aown):
    return all(all(active[a][1] != active[b][1] for b in range(a + 1, len(active))) for a in range(len(active)))


def o_active_range(k, active, free_colors, next_color, S, aown):
    return all(0 <= active[a][1] and active[a][1] < next_color for a in range(len(active)))


def o_free_range(k, active, free_colors, next_color, S, aown):
    return all(0 <= free_colors[f] and free_colors[f] < next_color for f in range(len(free_colors)))


def o_free_distinct(k, active, free_colors, next_color, S, aown):
    return all(all(free_colors[f] != free_colors[g] for g in range(f + 1, len(free_colors))) for f in range(len(free_colors)))


def o_free_not_active(k, active, free_colors, next_color, S, aown):
    return all(all(free_colors[f] != active[a][1] for a in range(len(active))) for f in range(len(free_colors)))


def o_coloured(k, active, free_colors, next_color, S, aown):
    return all(0 <= S[i]._color and S[i]._color < next_color for i in range(k))


def o_alive_in_active(k, active, free_colors, next_color, S, aown):
    # a processed symbol that outlives the start of the last processed one still has its entry in active
    return all((not (S[i].lifetime.stop > S[k - 1].lifetime.start)) or (0 <= S[i].slot and S[i].slot < len(active) and aown[S[i].slot] == i) for i in range(k))


def o_no_shared_colour(k, active, free_colors, next_color, S, aown):
    return all(all((not (S[i].lifetime.stop > S[j].lifetime.start)) or S[i]._color != S[j]._color for j in range(i + 1, k)) for i in range(k))


OUTER = [o_shape, o_active_owned, o_active_distinct, o_active_range, o_free_range, o_free_distinct, o_free_not_active, o_coloured, o_alive_in_active, o_no_shared_colour]


# inner loop, before entry m of active (k = index of the symbol being placed).  The inner loop does not write
# active / aown / _color / slot: what the outer invariant says about them stays among the hypotheses.
def i_shape(m, active, still_active, free_colors, next_color, S, aown, sown, start, k):
    return m <= len(active) and len(sown) == len(still_active)


def i_kept_owned(m, active, still_active, free_colors, next_color, S, aown, sown, start, k):
    return all(0 <= sown[b] and sown[b] < k and still_active[b][0] == S[sown[b]].lifetime.stop and still_active[b][1] == S[sown[b]]._color and S[sown[b]].slot2 == b
               and 0 <= still_active[b][1] and still_active[b][1] < next_color for b in range(len(still_active)))


def i_kept_distinct(m, active, still_active, free_colors, next_color, S, aown, sown, start, k):
    return all(all(still_active[a][1] != still_active[b][1] for b in range(a + 1, len(still_active))) for a in range(len(still_active)))


def i_free_range(m, active, still_active, free_colors, next_color, S, aown, sown, start, k):
    return all(0 <= free_colors[f] and free_colors[f] < next_color for f in range(len(free_colors)))


def i_free_distinct(m, active, still_active, free_colors, next_color, S, aown, sown, start, k):
    return all(all(free_colors[f] != free_colors[g] for g in range(f + 1, len(free_colors))) for f in range(len(free_colors)))


def i_free_not_kept(m, active, still_active, free_colors, next_color, S, aown, sown, start, k):
    return all(all(free_colors[f] != still_active[b][1] for b in range(len(still_active))) for f in range(len(free_colors)))


def i_free_not_pending(m, active, still_active, free_colors, next_color, S, aown, sown, start, k):
    return all(all(free_colors[f] != active[a][1] for a in range(m, len(active))) for f in range(len(free_colors)))


def i_kept_not_pending(m, active, still_active, free_colors, next_color, S, aown, sown, start, k):
    return all(all(still_active[b][1] != active[a][1] for a in range(m, len(active))) for b in range(len(still_active)))


def i_alive_moved(m, active, still_active, free_colors, next_color, S, aown, sown, start, k):
    # every processed entry that is still alive has been moved to still_active
    return all((not (active[a][0] > start)) or (0 <= S[aown[a]].slot2 and S[aown[a]].slot2 < len(still_active) and sown[S[aown[a]].slot2] == aown[a]) for a in range(m))


INNER = [i_shape, i_kept_owned, i_kept_distinct, i_free_range, i_free_distinct, i_free_not_kept, i_free_not_pending, i_kept_not_pending, i_alive_moved]


# ------------------------------------------------------------------------------------------- contract
def post_no_shared_colour(symbols, result):
    n = len(result)
    return all(all((not (result[i].lifetime.start < result[i].lifetime.stop and result[j].lifetime.start < result[j].lifetime.stop
                         and result[i].lifetime.start < result[j].lifetime.stop and result[j].lifetime.start < result[i].lifetime.stop))
                   or result[i]._color != result[j]._color for j in range(i + 1, n)) for i in range(n))


def post_all_coloured(symbols, result):
    return all(result[i]._color >= 0 for i in range(len(result)))


def post_same_list(symbols, result):
    return len(result) == len(symbols)


def make_records(st, pname):
    n = fresh("n_symbols", INT)
    st.assume(n >= 0)
    rs = RecordSeq("sym", n, {}, {"_color", "slot", "slot2"}, sub={"lifetime": {"start": START, "stop": STOP}})
    st.ghost["heap:_color"] = fresh("color0", z3.ArraySort(INT, INT))
    st.ghost["heap:slot"] = fresh("slot0", z3.ArraySort(INT, INT))
    st.ghost["heap:slot2"] = fresh("slot20", z3.ArraySort(INT, INT))
    st.ghost["__records__"] = rs
    return new_list(st, rs)


def h_sorted(eng, st, args, kw, origin):
    """sorted(xs, key=f) for the symbolic record sequence: the result is a permutation of xs that is non-decreasing in f.
    The symbolic sequence stands for that permutation (colours live in the records, the postcondition is symmetric in the
    symbols), so the call returns it together with the ordering fact for the key function THE CODE passes."""
    eng.use("sorted(xs, key=f): a permutation of xs, non-decreasing in f (external contract of the builtin)")
    rs = st.ghost["__records__"]
    key = kw.get("key")
    if key is None or kw.get("reverse") is not None or len(args) != 1:
        raise Unsupported("sorted() without key / with reverse on the symbol list")
    q = z3.Const("q!sorted", INT)

    def key_at(idx):
        outs = [(s2, v) for s2, v in eng.call(st.fork(), key, [rs.at(st, idx)], {}, origin)]
        if len(outs) != 1 or not isinstance(outs[0][1], VInt):
            raise Unsupported("sort key is not a single integer expression of the symbol")
        return outs[0][1].t

    a, b = key_at(q), key_at(q + 1)
    st.assume(z3.ForAll([q], z3.Implies(z3.And(q >= 0, q < rs.n - 1), a <= b), patterns=_select_patterns(a <= b, q, True)))
    return [(st, args[0])]


def setup(eng, st, args):
    rs = st.ghost["__records__"]
    eng.uf_patterns = True
    install_records(eng.world, rs)

    def g_init(e, s):
        s.env["aown"] = new_list(s, SymSeq.empty(0))
        s.env["sown"] = new_list(s, SymSeq.empty(0))

    def g_new_still(e, s):
        s.env["sown"] = new_list(s, SymSeq.empty(0))

    def g_keep(e, s):
        m = s.env["idx_e"].t
        aown = seq_of(s, s.env["aown"])
        owner = aown.cols[0][m]
        sown = seq_of(s, s.env["sown"])
        s.store[s.env["sown"].oid]["__sym__"] = SymSeq(sown.n + 1, [z3.Store(sown.cols[0], sown.n, owner)], 0)
        s.ghost["heap:slot2"] = z3.Store(s.ghost["heap:slot2"], owner, sown.n)

    def g_swap(e, s):
        s.env["aown"] = s.env["sown"]
        s.ghost["heap:slot"] = s.ghost["heap:slot2"]

    def g_add(e, s):
        k = s.env["idx_sym"].t
        aown = seq_of(s, s.env["aown"])
        s.store[s.env["aown"].oid]["__sym__"] = SymSeq(aown.n + 1, [z3.Store(aown.cols[0], aown.n, k)], 0)
        s.ghost["heap:slot"] = z3.Store(s.ghost["heap:slot"], k, aown.n)

    eng.ghost_hooks = [("symbols_sorted = sorted(", g_init, ["aown", "sown"]), ("still_active = []", g_new_still, ["sown"]), ("still_active.append(", g_keep, ["sown", "heap:slot2"]),
                       ("active = still_active", g_swap, ["aown", "heap:slot"]), ("active.append(", g_add, ["aown", "heap:slot"])]


def u_contract():
    f = X.find_function(X.module_ast("register_assignment.py"), "assign_colors")
    fn = "register_assignment.assign_colors"
    lists = {"active": 2, "still_active": 2, "free_colors": 0, "aown": 0, "sown": 0}
    specs = {
        f"{fn}@for[sym]": LoopSpec(OUTER, ["active", "free_colors", "next_color", "symbols_sorted", "aown"], name="outer", lists=lists),
        f"{fn}@for[(e, c)]": LoopSpec(INNER, ["active", "still_active", "free_colors", "next_color", "symbols_sorted", "aown", "sown", "start", "idx_sym"], name="inner", lists=lists),
    }
    k = KCustom("symbols: any number, any lifetimes", make_records, lambda m, v: None)
    c = Contract(name="register_assignment.assign_colors[all n]", fun=lambda eng: X.vfun(f, fn), params=[("symbols", [k])], pre=None,
                 post={"overlapping_lifetimes_get_different_colours": post_no_shared_colour, "every_symbol_is_coloured": post_all_coloured, "returns_all_symbols": post_same_list},
                 search=search_colors,
                 world={"sorted": VFun("builtin", fn=h_sorted, name="sorted")}, loop_specs=specs, setup=setup, timeout=20.0,
                 describe=dict(X.describe(f, "register_assignment.py"), track="U: loop invariants (outer 9 clauses, inner 16 clauses), ghost owners / slots; e-matching only",
                               extraction_drops=["type annotations", "comments"]))
    c.feas_timeout_ms = 1500
    c.split_conjunctions = True
    return c


# ------------------------------------------------------------------------------------------- assign_registers: one symbol
# The body of `for sym in symbols:` of the real assign_registers, for one symbol in an arbitrary state of the loop:
# a symbol already mapped keeps its mapping; otherwise colour c of the scope is the c-th register NOT blocked by a caller,
# and a colour beyond the registers that are left is the out-of-registers error (never an index error, never r16+).
def _symbol_body():
    import ast

    f = X.find_function(X.module_ast("register_assignment.py"), "assign_registers")
    loops = [n for n in ast.walk(f) if isinstance(n, ast.For) and isinstance(n.target, ast.Name) and n.target.id == "sym" and ast.unparse(n.iter) == "symbols"]
    if len(loops) != 1:
        raise Unsupported(f"sidecar out of date: expected one `for sym in symbols:` loop in assign_registers, found {len(loops)}")
    return f, loops[0]


def body_fun(eng):
    import ast

    f, loop = _symbol_body()
    once = ast.For(target=ast.Name(id="_once", ctx=ast.Store()), iter=ast.Tuple(elts=[ast.Constant(value=0)], ctx=ast.Load()), body=list(loop.body), orelse=[], lineno=loop.lineno, col_offset=0)
    ret = ast.parse("return (sym.code_expr, mapping, used_registers, blocked_registers)").body
    # `scope` and `module_names` are in scope at this point of the real function (not read by the loop body today)
    fn = X.as_function("assign_registers__for_sym_body", ["sym", "mapping", "available_registers", "used_registers", "blocked_registers", "scope", "module_names"], [once] + ret)
    return X.vfun(fn, "register_assignment.assign_registers@for-sym")


def body_pre(sym, mapping, available_registers, used_registers, blocked_registers, scope, module_names):
    a = available_registers
    return (sym._color >= -1 and len(a) <= 16 and all(0 <= a[i] and a[i] < 16 for i in range(len(a)))
            and all(a[i] < a[i + 1] for i in range(len(a) - 1)))


def body_post_mapped_symbol_keeps_mapping(sym, mapping, available_registers, used_registers, blocked_registers, scope, module_names, result):
    name0, color, was_mapped, old_text = sym.ghost_name, sym._color, sym.ghost_was_mapped, sym.ghost_old_text
    text, m2, used2, blocked2 = result
    return (not was_mapped) or text == old_text


def body_post_colour_is_the_cth_free_register(sym, mapping, available_registers, used_registers, blocked_registers, scope, module_names, result):
    name0, color, was_mapped = sym.ghost_name, sym._color, sym.ghost_was_mapped
    text, m2, used2, blocked2 = result
    reg = available_registers[color] if (not was_mapped) else 0
    return was_mapped or (0 <= color and color < len(available_registers) and 0 <= reg and reg < 16
                          and text == "r" + str(reg) and name0 in m2 and m2[name0] == text and reg in used2 and reg in blocked2)


def body_raises_out_of_registers(sym, mapping, available_registers, used_registers, blocked_registers, scope, module_names):
    return (not sym.ghost_was_mapped) and sym._color >= len(available_registers)


def body_raises_uncoloured(sym, mapping, available_registers, used_registers, blocked_registers, scope, module_names):
    return (not sym.ghost_was_mapped) and sym._color == -1


def native_body_search(clause):
    """whole assign path, natively: programs with more simultaneously live values than registers must end in the error"""
    from stationeers_pytrapic.compiler import compile_code

    # statistics of programs whose registers partly belong to library top-level code (every allocated register is counted)
    from bounded import genmod
    from bounded import harness as H
    from bounded.props import check_stats

    hl = "from stationeers_pytrapic.symbols import *\n"
    libs = [({"": hl + "from library import calib\nlevel = 0\nwhile True:\n    level = calib.corrected(d1.Setting)\n    db.Setting = level\n    yield_()\n",
              "calib": hl + "offset = (d0.Temperature - 273.15) * d0.Pressure + d0.RatioOxygen * 100\ndef corrected(v):\n    return v - offset\n"})]
    libs += [(genmod.generate_state_only(s_)[0]) for s_ in range(40)]
    for srcs in libs:
        srcs = srcs[0] if isinstance(srcs, tuple) else srcs
        for opts in ({"append_version": False}, {"append_version": False, "inline_functions": False}):
            res = H.compile_program(srcs, opts)
            if "code" in res:
                f_ = [x for x in check_stats(res) if "num_registers" in x]
                if f_:
                    return {"sources": srcs, "options": opts}, f_[0]
    for n in (15, 16, 17, 20):
        src = "from stationeers_pytrapic.symbols import *\n" + "".join(f"v{i} = d0.Setting + {i}\n" for i in range(n)) + "while True:\n" + "".join(f"    v{i} = v{i} + d0.On\n" for i in range(n)) + "    db.Setting = " + " + ".join(f"v{i}" for i in range(n)) + "\n    yield_()\n"
        try:
            r = compile_code(src)
        except Exception as e:
            return {"sources": src}, f"compile_code raised {type(e).__name__}: {e}"
        import re

        regs = set(re.findall(r"\br(\d+)\b", r.get("code", "")))
        if any(int(x) > 15 for x in regs):
            return {"sources": src}, f"registers beyond r15 in the output: {sorted(regs, key=int)[-3:]}"
        if "code" in r and n > 16:
            return {"sources": src}, f"{n} simultaneously live values were accepted"
        if "error" in r and "registers" not in r["error"].get("description", "") :
            return {"sources": src}, "error is not the out-of-registers error: " + r["error"].get("description", "")[:200]
    return None


def symbol_body_contract():
    from pyvc.ulist import SymIntSet, SymStrMap

    f, loop = _symbol_body()

    def mk_sym(st, pname):
        name = VStr(fresh("virtual_name", z3.StringSort()))
        return st.new_obj("IC10Register", {"code_expr": name, "_color": VInt(fresh("color", INT)), "_is_intermediate": VBool(fresh("interm", z3.BoolSort())),
                                           "ghost_name": name, "ghost_was_mapped": VC(False), "ghost_old_text": VC("")})

    def mk_map(st, pname):
        return VDict(st.alloc({"__sym__": SymStrMap.fresh(st, "mapping")}))

    def mk_avail(st, pname):
        return new_list(st, SymSeq.fresh(st, "available", 0))

    def mk_set(st, pname):
        return VSet(st.alloc({"__sym__": SymIntSet.fresh(st, pname)}))

    def mk_names(st, pname):
        from pyvc.ulist import STRS

        class AnyNames:
            """a set of strings with arbitrary content: membership is an uninterpreted predicate"""
            mem = z3.Function("in_module_names", STRS, z3.BoolSort())

            def contains(self, eng, st, item, origin):
                from pyvc import pysem as S

                return [(st, self.mem(S.to_str_term(item)))]

            def method(self, eng, st, recv, name, args, kwargs, origin):
                raise Unsupported(f"method {name} on module_names")

            def length(self, st):
                raise Unsupported("len(module_names)")

        return VSet(st.alloc({"__sym__": AnyNames()}))

    def setup(eng, st, args):
        # ghost fields of the symbol: whether its virtual name was mapped on entry, and to what
        sym, m = args["sym"], st.store[args["mapping"].oid]["__sym__"]
        name = st.store[sym.oid]["code_expr"].t
        st.store[sym.oid]["ghost_was_mapped"] = VBool(z3.Select(m.dom, name))
        st.store[sym.oid]["ghost_old_text"] = VStr(z3.Select(m.val, name))

    c = Contract(name="register_assignment.assign_registers@for-sym", fun=body_fun,
                 params=[("sym", [KCustom("symbol: any virtual name, any colour", mk_sym, lambda m, v: None)]), ("mapping", [KCustom("mapping: any", mk_map, lambda m, v: None)]),
                         ("available_registers", [KCustom("free registers: increasing, within r0-r15", mk_avail, lambda m, v: None)]),
                         ("used_registers", [KCustom("set", mk_set, lambda m, v: None)]), ("blocked_registers", [KCustom("set", mk_set, lambda m, v: None)]),
                         ("scope", [KStr()]), ("module_names", [KCustom("set of names: any", mk_names, lambda m, v: None)])],
                 pre=body_pre, post={"mapped_symbol_keeps_its_register": body_post_mapped_symbol_keeps_mapping, "colour_c_is_the_cth_free_register_r0_to_r15": body_post_colour_is_the_cth_free_register},
                 raises={"CompilerError": body_raises_out_of_registers, "RuntimeError": body_raises_uncoloured}, world={"CompilerError": VType("CompilerError"), "RuntimeError": VType("RuntimeError")},
                 setup=setup, search=native_body_search, timeout=60.0,
                 describe=dict(file="src/stationeers_pytrapic/register_assignment.py", lines=[loop.lineno, loop.end_lineno], sha256_of_extracted_source=X.sha(loop),
                               track="U (loop-free block: the body of `for sym in symbols`, one arbitrary iteration)",
                               extraction_drops=["the construction of available_registers (sorted(set(range(16)) - parent registers)) is the precondition: increasing, within 0..15", "type annotations"]))
    c.feas_timeout_ms = 500
    return c
