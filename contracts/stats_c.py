"""C17: the statistics block at the end of CompilerPassGatherCode.get_code under contract.

The block is cut out of the real method on every run: from the statement `if options.append_version:` (the last place
where the output text changes) to the assignment of `self.data.result`.  The version-note statement itself is abstracted
(it may leave ANY text in `s` and anything in the other names it writes); what is proved is that the reported numbers are
computed from the text that is returned as 'code', by the formulas of the property:
    num_lines = number of lines of code,  num_bytes = len(code) + one extra byte per line break,  num_registers = size of
    the used-register set handed over by register assignment.
`len(x.splitlines())` is the line count of x (library contract; equal to the count of "\\n"-separated lines for emitted
text, which never ends in a line break - the independent recount of the bounded check uses split("\\n"))."""
from __future__ import annotations

import ast

import z3

from pyvc import extract as X
from pyvc.contract import Contract, KBool, KCustom, KStr
from pyvc.state import fresh
from pyvc.ulist import SymSeq, new_list
from pyvc.values import *

REL = "generate_code.py"


def _is_version_if(stmt):
    return isinstance(stmt, ast.If) and ast.unparse(stmt.test) == "options.append_version"


def block():
    tree = X.module_ast(REL)
    f = X.find_function(tree, "CompilerPassGatherCode.get_code")
    body = f.body
    starts = [i for i, s in enumerate(body) if _is_version_if(s)]
    ends = [i for i, s in enumerate(body) if isinstance(s, ast.Assign) and ast.unparse(s.targets[0]) == "self.data.result"]
    if len(starts) != 1 or len(ends) != 1 or ends[0] < starts[0]:
        raise Unsupported(f"sidecar out of date: expected `if options.append_version:` followed by `self.data.result = ...` at the top level of get_code (found {len(starts)} / {len(ends)})")
    # nothing after the result assignment may touch the result or the text
    for s in body[ends[0] + 1:]:
        for n in ast.walk(s):
            if isinstance(n, ast.Name) and n.id in ("s",) and isinstance(n.ctx, ast.Store) or (isinstance(n, ast.Attribute) and n.attr == "result" and isinstance(n.ctx, ast.Store)):
                raise Unsupported("sidecar out of date: the result is modified after the statistics block")
    return f, body[starts[0]: ends[0] + 1]


def stats_fun(eng):
    f, stmts = block()
    post = ast.parse("return self.data.result").body
    fn = X.as_function("get_code__statistics_block", ["self", "options", "s"], list(stmts) + post)
    return X.vfun(fn, "generate_code.CompilerPassGatherCode.get_code@statistics")


def make_self(st, pname):
    regs = new_list(st, SymSeq.fresh(st, "used_registers", 0))
    st.ghost["used_registers"] = regs
    data = st.new_obj("CodeData", {"result": VC(None)})
    return st.new_obj("CompilerPassGatherCode", {"used_registers": regs, "data": data})


def make_options(st, pname):
    return st.new_obj("CompileOptions", {"append_version": VBool(fresh("append_version", z3.BoolSort()))})


def post_lines(self, options, s, result):
    return result["num_lines"] == len(result["code"].splitlines())


def post_bytes(self, options, s, result):
    n = len(result["code"].splitlines())
    return result["num_bytes"] == len(result["code"]) + (n - 1 if n > 1 else 0)


def post_registers(self, options, s, result):
    return result["num_registers"] == len(self.used_registers)


def post_code_is_text(self, options, s, result):
    return isinstance(result["code"], str)


def post_unchanged_without_note(self, options, s, result):
    # with append_version off the block returns the text it was given
    return options.append_version or result["code"] == s


def setup(eng, st, args):
    eng.abstract_stmts = [(_is_version_if, {"s": "str", "lines": "opaque", "version_string": "str", "l": "int", "i": "int"},
                           "the version-note statement (may rewrite the text in any way)")]


def native_stats(src, opts):
    from bounded import harness as H
    from bounded.props import check_stats

    res = H.compile_program(src, opts)
    return None if "code" not in res else (check_stats(res), res)


def search_stats(clause):
    from bounded import harness as H

    h = "from stationeers_pytrapic.symbols import *\n"
    progs = ["", h, h + "db.Setting = 1\n", h + "x = d0.Setting\nwhile x > 0:\n    x = x - 1\n    db.Setting = x\n",
             h + "db.Setting = " + " + ".join(["d0.Setting"] * 12) + "\n", h + "def f(a):\n    return a + 1\ndb.Setting = f(d0.Setting)\ndb.On = f(d1.On)\n"]
    for src in progs:
        for bits in range(0, 256, 1):
            opts = H.options_from_bits(bits)
            r = native_stats(src, opts)
            if r and r[0]:
                return {"sources": src, "options": opts}, r[0][0]
    return None


def stats_contract():
    f, stmts = block()
    k_self = KCustom("pass object (any used-register set)", make_self, lambda m, v: None)
    k_opts = KCustom("options (append_version symbolic)", make_options, lambda m, v: None)
    c = Contract(name="generate_code.CompilerPassGatherCode.get_code@statistics", fun=stats_fun,
                 params=[("self", [k_self]), ("options", [k_opts]), ("s", [KStr()])], pre=None,
                 post={"num_lines_is_the_line_count_of_code": post_lines, "num_bytes_counts_two_bytes_per_line_end": post_bytes,
                       "num_registers_is_the_size_of_the_used_set": post_registers, "code_is_text": post_code_is_text,
                       "text_unchanged_without_version_note": post_unchanged_without_note},
                 native=None, search=search_stats, setup=setup, timeout=60.0,
                 describe=dict(file=f"src/stationeers_pytrapic/{REL}", lines=[stmts[0].lineno, stmts[-1].end_lineno],
                               sha256_of_extracted_source=X.sha(ast.Module(body=list(stmts), type_ignores=[])),
                               track="U (block contract; the version-note statement is abstracted to 'writes any text')",
                               extraction_drops=["everything of get_code before `if options.append_version:` (the text `s` is a symbolic input)"]))
    return c
