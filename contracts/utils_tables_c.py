"""Sidecar contracts for the operator tables of utils.py (C03 value clauses, C09 kind clauses,
C01 branch-suffix tables).  Nothing here copies repository code: rows and prologues are located in
the AST of the working tree on every run."""
from __future__ import annotations

import ast
import math

from pyvc import extract as X
from pyvc.contract import Contract, KConst, KFloat, KIntFloat, KStr
from pyvc.speclib import finite, is_integral, is_plain_number, install_math, libm_pow
from pyvc.state import State
from pyvc.values import *
from spec import ic10_ops as ops
from spec.tokens import crc32_signed

UTILS = "utils.py"


# ----------------------------------------------------------------------------- specification of _e
def e_spec(value):
    """Numeric value of a constant operand as the chip will see it."""
    if isinstance(value, str):
        return crc32_signed(value[6:-2])
    return float(value)


def e_pre(value):
    if isinstance(value, str):
        inner = value[6:-2]
        return (value.startswith('HASH("') and value.endswith('")') and len(value) >= 9 and inner != ""
                and not (inner[0] == '"' and inner[-1] == '"')
                and not (inner.startswith('HASH("') and inner.endswith('")')))
    return True


def e_post(value, result):
    return result == e_spec(value)


# ----------------------------------------------------------------------------- domains (from the property's quantifier)
def two53():
    return 9007199254740992.0


def dom_arith_add(x, y):
    return finite(float(x) + float(y))


def dom_arith_sub(x, y):
    return finite(float(x) - float(y))


def dom_arith_mul(x, y):
    return finite(float(x) * float(y))


def dom_div(x, y):
    return float(y) != 0 and finite(float(x) / float(y))


def dom_mod(x, y):
    return float(y) > 0


def dom_pow(x, y):
    return finite(libm_pow(float(x), float(y)))


def dom_bits(x, y):
    return abs(float(x)) < 9007199254740992.0 and abs(float(y)) < 9007199254740992.0


def dom_srl(x, y):
    return 0 <= float(x) and float(x) < 9007199254740992.0 and 0 <= float(y) and float(y) < 64


def dom_sll(x, y):
    return (0 <= float(x) and float(x) < 9007199254740992.0 and 0 <= float(y) and float(y) < 53
            and int(float(x)) <= (9007199254740991 >> int(float(y))))


def dom_any(x, y):
    return True


def dom_any1(x):
    return True


def dom_bits1(x):
    return abs(float(x)) < 9007199254740992.0


# ----------------------------------------------------------------------------- postconditions
def mk_value_post(chip):
    def value(x, y, result):
        return float(result) == chip(float(x), float(y))

    value.__chip__ = chip
    return value


def kind_post(x, y, result):
    return is_plain_number(result)


def kind_post1(x, result):
    return is_plain_number(result)


# explicit (named) defs so that inspect.getsource works for every clause
def v_add(x, y, result):
    return float(result) == ops.chip_add(float(x), float(y))


def v_sub(x, y, result):
    return float(result) == ops.chip_sub(float(x), float(y))


def v_mul(x, y, result):
    return float(result) == ops.chip_mul(float(x), float(y))


def v_div(x, y, result):
    return float(result) == ops.chip_div(float(x), float(y))


def v_mod(x, y, result):
    return float(result) == ops.chip_mod(float(x), float(y))


def v_pow(x, y, result):
    return float(result) == ops.chip_pow(float(x), float(y))


def v_and(x, y, result):
    return float(result) == ops.chip_and(float(x), float(y))


def v_or(x, y, result):
    return float(result) == ops.chip_or(float(x), float(y))


def v_xor(x, y, result):
    return float(result) == ops.chip_xor(float(x), float(y))


def v_srl(x, y, result):
    return float(result) == ops.chip_srl(float(x), float(y))


def v_sll(x, y, result):
    return float(result) == ops.chip_sll(float(x), float(y))


def v_seq(x, y, result):
    return float(result) == ops.chip_seq(float(x), float(y))


def v_sne(x, y, result):
    return float(result) == ops.chip_sne(float(x), float(y))


def v_slt(x, y, result):
    return float(result) == ops.chip_slt(float(x), float(y))


def v_sgt(x, y, result):
    return float(result) == ops.chip_sgt(float(x), float(y))


def v_sle(x, y, result):
    return float(result) == ops.chip_sle(float(x), float(y))


def v_sge(x, y, result):
    return float(result) == ops.chip_sge(float(x), float(y))


def v_neg(x, result):
    return float(result) == ops.chip_neg_sub(float(x))


def v_seqz(x, result):
    return float(result) == ops.chip_seqz(float(x))


def v_not(x, result):
    return float(result) == ops.chip_not(float(x))


def zero_div_only_if_zero(x, y):
    return float(y) == 0


# op -> (expected opcode, domain, value clause)
BINARY_ROWS = {
    "+": ("add", dom_arith_add, v_add),
    "-": ("sub", dom_arith_sub, v_sub),
    "*": ("mul", dom_arith_mul, v_mul),
    "/": ("div", dom_div, v_div),
    "%": ("mod", dom_mod, v_mod),
    "**": ("pow", dom_pow, v_pow),
    "and": ("and", dom_bits, v_and),
    "or": ("or", dom_bits, v_or),
    "^": ("xor", dom_bits, v_xor),
    "&": ("and", dom_bits, v_and),
    ">>": ("srl", dom_srl, v_srl),
    "<<": ("sll", dom_sll, v_sll),
    "==": ("seq", dom_any, v_seq),
    "!=": ("sne", dom_any, v_sne),
    "<": ("slt", dom_any, v_slt),
    ">": ("sgt", dom_any, v_sgt),
    "<=": ("sle", dom_any, v_sle),
    ">=": ("sge", dom_any, v_sge),
}
UNARY_ROWS = {
    "-": ("sub", dom_any1, v_neg),
    "~": ("not", dom_bits1, v_not),
    "not": ("seqz", dom_any1, v_seqz),
}


# ----------------------------------------------------------------------------- world
def utils_world():
    from pyvc.symexec import Engine

    w = {}
    install_math(w)
    w["CompilerError"] = VType("CompilerError")
    w["OutputMode"] = VMod("OutputMode", {"VERBOSE": VC(0), "COMPACT": VC(1), "NUMERIC": VC(2)})
    for n in ("int", "float", "str", "bool"):
        pass
    tree = X.module_ast(UTILS)
    # get_comparison_suffix is a table function: interpreted from the real source where `comp` uses it
    w["get_comparison_suffix"] = X.vfun(X.find_function(tree, "get_comparison_suffix"), "utils.get_comparison_suffix")
    return w


def e_contract_fun():
    """`_e` as seen by its callers: its contract (pre as side obligation, value from the spec function)."""
    from pyvc.loops import eval_pred

    def apply(eng, st, args, kwargs, origin):
        st.obligations.append((f"call:utils._e.pre@{origin}", eval_pred(eng, st, e_pre, args)))
        eng.use("callee contract utils._e (proved separately: utils._e#post)")
        return eng.call(st, eng.spec_fun(e_spec), args, {}, origin)

    return VFun("builtin", fn=apply, name="contract:utils._e")


def table_row(table_fn: str, key, idx: int):
    """Locator utils:<table_fn>{key}[idx]: the idx-th element of the row tuple, evaluated in the
    table function's own prologue environment."""

    def build(eng):
        tree = X.module_ast(UTILS)
        f = X.find_function(tree, table_fn)
        rows = X.dict_rows(X.returned_dict(f))
        if key not in rows:
            raise Unsupported(f"sidecar out of date: row {key!r} missing from {table_fn}")
        st = State()
        eng.func_stack.append("utils." + table_fn)
        try:
            for o in eng.exec_block(X.statements_before(f, lambda s: isinstance(s, ast.Return)), st):
                st = o.st
            ((s, v),) = eng.ev(rows[key], st)
        finally:
            eng.func_stack.pop()
        if not isinstance(v, VTuple):
            raise Unsupported(f"row {key!r} of {table_fn} is not a tuple")
        return v.items[idx]

    return build


def table_keys(table_fn):
    tree = X.module_ast(UTILS)
    return list(X.dict_rows(X.returned_dict(X.find_function(tree, table_fn))).keys())


def native_binop(op):
    def call(x, y):
        from stationeers_pytrapic import utils

        return utils.get_binop_instruction(op)[1](x, y)

    return call


def native_unop(op):
    def call(x):
        from stationeers_pytrapic import utils

        return utils.get_unop_instruction(op)[1](x)

    return call


NUM_KINDS = [KFloat(), KIntFloat()]


def fold_contracts():
    """One contract per row of the two fold tables: value clause (C03) and kind clause (C09)."""
    cs = []
    w = utils_world()
    w["_e"] = e_contract_fun()
    for op, (opcode, dom, value) in BINARY_ROWS.items():
        raises = {}
        if op in ("/", "%"):
            raises["ZeroDivisionError"] = zero_div_only_if_zero
        cs.append(Contract(
            name=f"utils.get_binop_instruction{{{op}}}[1]",
            fun=table_row("get_binop_instruction", op, 1),
            params=[("x", NUM_KINDS), ("y", NUM_KINDS)],
            pre=dom, post={"fold_equals_chip": value, "kind_is_number": kind_post}, raises=raises,
            native=native_binop(op), world=w,
        ))
    for op, (opcode, dom, value) in UNARY_ROWS.items():
        raises = {}
        if op == "~":
            # the `~` fold applies ~ to a float and therefore raises for every operand: no literal is ever
            # produced by it (callers either treat that as "not constant" or report an error dictionary)
            raises["TypeError"] = True
        cs.append(Contract(
            name=f"utils.get_unop_instruction{{{op}}}[1]",
            fun=table_row("get_unop_instruction", op, 1),
            params=[("x", NUM_KINDS)],
            pre=dom, post={"fold_equals_chip": value, "kind_is_number": kind_post1}, raises=raises,
            native=native_unop(op), world=w,
        ))
    return cs
