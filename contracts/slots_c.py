"""C06: the argument / result transport between a call site and its callee - two cooperating sites, each fine alone.

`CompilerPassGenerateCode.handle_call` writes the i-th argument (fixed-slot convention: `put db <slot(i)>`; push/pop
convention: `push`), `compile_function` reads the parameters (`get db <slot(i)>` in declaration order / `pop` over the
REVERSED parameter list), `handle_return` writes and `handle_call` reads the result cell.  The expressions and the loop
shapes are taken from the real source on every run (AST); the obligations are over all argument counts and indices:

  caller_and_callee_slots_agree      for all i:  slot the caller writes for argument i == slot the callee reads for parameter i
  argument_slots_are_distinct        for all i != j >= 0:  slot(i) != slot(j)
  argument_slots_miss_the_result     for all i >= 0:  slot(i) != result cell
  result_cell_agrees                 cell written by `return` == cell read after the `jal`
  slots_inside_the_stack             for 0 <= i < 511:  0 <= slot(i) <= 511, and the result cell is in 0..511
  pop_order_matches_push_order       push/pop convention: the caller pushes arguments 0..n-1 in order (enumerate over node.args),
                                     the k-th pop returns push number n-1-k (LIFO, ISA), the callee's k-th pop is bound to
                                     parameter order(k) where order is what the real `arg_list = ...` expression selects for this
                                     convention (reversed: n-1-k, else k): for all 0 <= k < n: order(k) == n-1-k
  fixed_slots_use_declaration_order  fixed-slot convention: the callee's k-th get is bound to parameter order'(k) == k
  convention_branches_are_paired     scan: under `if self.data.options.use_push_pop_functions` the caller pushes / the callee pops /
                                     the result is pushed and popped; in the else branches put / get are used

Assumed (builtin contracts): enumerate counts from 0 in iteration order; list(reversed(xs))[k] == xs[len(xs)-1-k];
integers mathematical.  Trusted: IC10 `push`/`pop` are LIFO, `put`/`get db a` address stack cell a (spec/ic10_isa.py)."""
from __future__ import annotations

import ast
import time

import z3

from pyvc import extract as X
from pyvc.report import DISCHARGED, UNDECIDED, VIOLATED, Ob
from pyvc.smt import check_valid
from pyvc.values import Unsupported

REL = "generate_code.py"
TARGET = "generate_code.CompilerPassGenerateCode.handle_call+compile_function+handle_return@argument_transport"
PP = "self.data.options.use_push_pop_functions"


def _parents(tree):
    par = {}
    for n in ast.walk(tree):
        for c in ast.iter_child_nodes(n):
            par[c] = n
    return par


def _mode(node, par):
    """'pushpop' / 'slots' / None: which branch of `if <PP>` encloses the node (innermost)"""
    c = node
    while c in par:
        p = par[c]
        if isinstance(p, ast.If) and ast.unparse(p.test) == PP:
            return "pushpop" if any(c is s or c in ast.walk(s) for s in p.body) else "slots"
        c = p
    return None


def _enclosing(node, par, kind):
    c = node
    while c in par:
        c = par[c]
        if isinstance(c, kind):
            return c
    return None


def collect():
    tree = X.module_ast(REL)
    par = _parents(tree)
    const = None
    for s in tree.body:
        if isinstance(s, ast.Assign) and ast.unparse(s.targets[0]) == "_RETURN_VALUE_ADDRESS":
            if not (isinstance(s.value, ast.Constant) and isinstance(s.value.value, int)):
                raise Unsupported("_RETURN_VALUE_ADDRESS is not an integer literal")
            const = s.value.value
    if const is None:
        raise Unsupported("sidecar out of date: _RETURN_VALUE_ADDRESS not found")
    sites = []
    for n in ast.walk(tree):
        if isinstance(n, ast.Call) and ast.unparse(n.func) == "IC10" and n.args and isinstance(n.args[0], ast.Constant) and n.args[0].value in ("put", "get", "push", "pop"):
            f = _enclosing(n, par, ast.FunctionDef)
            if f is None or f.name not in ("handle_call", "compile_function", "handle_return"):
                continue
            op = n.args[0].value
            addr = None
            if op in ("put", "get"):
                ops = n.args[1]
                if not (isinstance(ops, ast.List) and len(ops.elts) >= 2 and isinstance(ops.elts[0], ast.Constant) and ops.elts[0].value == "db"):
                    continue  # not a stack access of this chip
                addr = ops.elts[1]
            loop = _enclosing(n, par, ast.For)
            if loop is not None and _enclosing(loop, par, ast.FunctionDef) is not f:
                loop = None
            sites.append(dict(op=op, fn=f.name, addr=addr, loop=loop, mode=_mode(n, par), line=n.lineno))
    return tree, const, sites


def _pick(sites, fn, ops, in_loop):
    r = [s for s in sites if s["fn"] == fn and s["op"] in ops and (s["loop"] is not None) == in_loop]
    return r


def _idx_name(loop, want_iter):
    """loop must be `for <i>, <x> in enumerate(<want_iter>)`"""
    if not (isinstance(loop.target, ast.Tuple) and len(loop.target.elts) == 2 and isinstance(loop.target.elts[0], ast.Name) and isinstance(loop.iter, ast.Call)
            and ast.unparse(loop.iter.func) == "enumerate" and len(loop.iter.args) == 1 and not loop.iter.keywords and ast.unparse(loop.iter.args[0]) == want_iter):
        raise Unsupported(f"sidecar out of date: loop at line {loop.lineno} is not `for i, x in enumerate({want_iter})`")
    return loop.target.elts[0].id


def _term(e, const, idx_name, i):
    if isinstance(e, ast.Constant) and isinstance(e.value, int) and not isinstance(e.value, bool):
        return z3.IntVal(e.value)
    if isinstance(e, ast.Name):
        if e.id == "_RETURN_VALUE_ADDRESS":
            return z3.IntVal(const)
        if idx_name is not None and e.id == idx_name:
            return i
        raise Unsupported(f"name {e.id!r} in a stack address at line {e.lineno}")
    if isinstance(e, ast.BinOp) and isinstance(e.op, (ast.Add, ast.Sub, ast.Mult)):
        a, b = _term(e.left, const, idx_name, i), _term(e.right, const, idx_name, i)
        return a + b if isinstance(e.op, ast.Add) else a - b if isinstance(e.op, ast.Sub) else a * b
    if isinstance(e, ast.UnaryOp) and isinstance(e.op, ast.USub):
        return -_term(e.operand, const, idx_name, i)
    raise Unsupported(f"stack address {ast.unparse(e)!r} at line {e.lineno} is outside the subset (integer + - * over the loop index)")


def obligations(timeout=20.0):
    tree, const, sites = collect()
    obs = []

    def one(sel, what):
        if len(sel) != 1:
            raise Unsupported(f"sidecar out of date: expected exactly one {what}, found {len(sel)} (lines {[s['line'] for s in sel]})")
        return sel[0]

    put_arg = one(_pick(sites, "handle_call", ("put",), True), "`put db` in the argument loop of handle_call")
    push_arg = one(_pick(sites, "handle_call", ("push",), True), "`push` in the argument loop of handle_call")
    get_arg = one(_pick(sites, "compile_function", ("get",), True), "`get db` in the parameter loop of compile_function")
    pop_arg = one(_pick(sites, "compile_function", ("pop",), True), "`pop` in the parameter loop of compile_function")
    get_ret = one(_pick(sites, "handle_call", ("get",), False), "`get db` of the result in handle_call")
    pop_ret = one(_pick(sites, "handle_call", ("pop",), False), "`pop` of the result in handle_call")
    put_ret = one([s for s in sites if s["fn"] == "handle_return" and s["op"] == "put"], "`put db` in handle_return")
    push_ret = one([s for s in sites if s["fn"] == "handle_return" and s["op"] == "push"], "`push` in handle_return")
    if put_arg["loop"] is not push_arg["loop"] or get_arg["loop"] is not pop_arg["loop"]:
        raise Unsupported("sidecar out of date: the two conventions are not handled in the same loop")
    ci = _idx_name(put_arg["loop"], "node.args")
    ki = _idx_name(get_arg["loop"], "arg_list")
    i, j, n, k = z3.Ints("i j n k")
    cs = lambda x: _term(put_arg["addr"], const, ci, x)
    ks = lambda x: _term(get_arg["addr"], const, ki, x)
    rw, rr = _term(put_ret["addr"], const, None, None), _term(get_ret["addr"], const, None, None)

    def prove(name, pc, goal, witness_vars=()):
        t0 = time.time()
        r, m, why = check_valid(pc, goal, timeout)
        ob = Ob(f"{TARGET}#{name}", DISCHARGED if r == "valid" else UNDECIDED, backend=why if r == "valid" else "z3", time_s=round(time.time() - t0, 3), target=TARGET)
        if r == "invalid":
            ob.detail["reason"] = "solver: NOPROOF z3: counter-model " + ", ".join(f"{v} = {m.eval(v, model_completion=True)}" for v in witness_vars)
        elif r != "valid":
            ob.detail["reason"] = "solver: " + str(why)
        obs.append(ob)

    prove("caller_and_callee_slots_agree", [i >= 0], cs(i) == ks(i), [i])
    prove("argument_slots_are_distinct", [i >= 0, j >= 0, i != j], cs(i) != cs(j), [i, j])
    prove("argument_slots_miss_the_result", [i >= 0], z3.And(cs(i) != rw, ks(i) != rr), [i])
    prove("result_cell_agrees", [], rw == rr)
    prove("slots_inside_the_stack", [i >= 0, i < 511], z3.And(0 <= cs(i), cs(i) <= 511, 0 <= rw, rw <= 511), [i])
    # ---- order of parameters in the callee
    assigns = [s for s in ast.walk(get_arg["loop"] and _enclosing(get_arg["loop"], _parents(tree), ast.FunctionDef)) if isinstance(s, ast.Assign) and ast.unparse(s.targets[0]) == "arg_list"]
    if len(assigns) != 1 or not isinstance(assigns[0].value, ast.IfExp):
        raise Unsupported("sidecar out of date: `arg_list = <a> if <convention> else <b>` not found in compile_function")
    ife = assigns[0].value

    def order(expr, kk):
        t = ast.unparse(expr)
        if t == "node.args.args":
            return kk
        if t == "list(reversed(node.args.args))":
            return n - 1 - kk
        raise Unsupported(f"parameter order {t!r} is outside the subset")

    test = ast.unparse(ife.test)
    if test == PP:
        o_pp, o_sl = order(ife.body, k), order(ife.orelse, k)
    elif test == "not " + PP:
        o_pp, o_sl = order(ife.orelse, k), order(ife.body, k)
    else:
        raise Unsupported(f"sidecar out of date: parameter order is selected by {test!r}")
    prove("pop_order_matches_push_order", [n >= 0, 0 <= k, k < n], o_pp == n - 1 - k, [n, k])
    prove("fixed_slots_use_declaration_order", [n >= 0, 0 <= k, k < n], o_sl == k, [n, k])
    # ---- scan: each access sits in the branch of its convention
    want = [(put_arg, "slots"), (push_arg, "pushpop"), (get_arg, "slots"), (pop_arg, "pushpop"), (get_ret, "slots"), (pop_ret, "pushpop"), (put_ret, "slots"), (push_ret, "pushpop")]
    bad = [f"{s['op']} at line {s['line']} is in the {s['mode']} branch" for s, m in want if s["mode"] != m]
    ob = Ob(f"{TARGET}#convention_branches_are_paired", DISCHARGED if not bad else UNDECIDED, kind="scan", backend="scan", target=TARGET)
    if bad:
        ob.detail["reason"] = "solver: NOPROOF scan: " + "; ".join(bad)
    obs.append(ob)
    info = dict(file=f"src/stationeers_pytrapic/{REL}", lines=sorted(s["line"] for s, _ in want), sha256_of_extracted_source=X.sha(ast.Module(body=[ast.Expr(s["addr"]) for s, _ in want if s["addr"] is not None] + [assigns[0]], type_ignores=[])),
                track="two-site lemma: address expressions and loop shapes from the AST, linear integer arithmetic, all indices / argument counts",
                extraction_drops=["everything of the three methods except the eight stack accesses, their loops, their convention branches and the `arg_list` expression"])
    return obs, info


def native_search(clause):
    """Replay side: small programs whose functions are not symmetric in their arguments, both conventions, not inlined, on the
    reference machine against the source semantics."""
    from bounded import harness as H

    h = "from stationeers_pytrapic.symbols import *\n"
    progs = [h + "def f(a, b):\n    return a - 2 * b\ndb.Setting = f(d0.Setting, 3)\n",
             h + "def f(a, b, c):\n    return a - 2 * b + 5 * c\ndb.Setting = f(d0.Setting, d1.Setting, 7)\ndb.Setting = f(1, 2, d0.Setting)\n",
             h + "def g(x, y):\n    return x * 3 - y\ndef f(a, b):\n    t = g(b, a)\n    return t - a\ndb.Setting = f(d0.Setting, 4)\n"]
    for src in progs:
        for pp in (False, True):
            for tco in (False, True):
                opts = {"inline_functions": False, "use_push_pop_functions": pp, "tail_call_optimization": tco}
                try:
                    res = H.compile_program(src, opts)
                except TypeError:
                    opts.pop("tail_call_optimization")
                    res = H.compile_program(src, opts)
                if "code" not in res:
                    continue
                env = H.make_env(3, H.consts_of(src))
                t2, s2 = H.run_dialect(src, env)
                if t2 is None:
                    continue
                m = H.run_machine(res["code"], env)
                d = H.compare_traces(m.trace, m.status, t2, s2)
                if d:
                    return {"sources": src, "options": opts}, {"difference": d, "emitted_code": res["code"]}
    return None


def run_into(report, timeout=20.0):
    t0 = time.time()
    try:
        obs, info = obligations(timeout)
    except Unsupported as e:
        ob = Ob(f"{TARGET}#subset[extraction]", UNDECIDED, target=TARGET, detail={"reason": f"outside the verified subset: {e}"})
        found = native_search("subset")
        if found:
            ob = Ob(f"{TARGET}#caller_and_callee_slots_agree", VIOLATED, target=TARGET, witness=found[0], replayed=True,
                    detail={"observed": found[1], "reason": f"outside the verified subset: {e}", "witness_source": "native search on the reference machine"})
        report.add(ob)
        return
    for ob in obs:
        if ob.verdict == UNDECIDED and str(ob.detail.get("reason", "")).startswith("solver: NOPROOF"):
            found = native_search(ob.id)
            if found:
                ob.verdict, ob.replayed, ob.witness = VIOLATED, True, found[0]
                ob.detail["observed"] = found[1]
                ob.detail["witness_source"] = "the solver's counter-model names indices; the witness is a program run on the reference machine against the source semantics"
        report.add(ob)
    report.function(target=TARGET, wall_s=round(time.time() - t0, 2), **info)
