"""C09: operand rendering.  Contracts on the real utils.format_int (block), types.IC10Operand.__init__ and to_string,
an exhaustive scan of the literal opcodes used by the code generator, and a bounded read-back check of float literals."""
from __future__ import annotations

import ast
import math
import os
import random
import time

import z3

from pyvc import extract as X
from pyvc import pysem as S
from pyvc.builtins_model import class_from_source
from pyvc.contract import Contract, KConst, KCustom, KFloat, KInt, KStr
from pyvc.pysem import exc
from pyvc.report import DISCHARGED, HELD, SRC, UNDECIDED, VIOLATED, Ob
from pyvc.speclib import uninterpreted
from pyvc.state import fresh
from pyvc.values import *
from spec.ic10_isa import ISA

UF_HEXU = z3.Function("format_int_X", z3.IntSort(), z3.StringSort())
UF_G16 = z3.Function("format_float_16g", F64, z3.StringSort())


def _hex_sym(eng, st, args, kwargs, origin):
    v, spec = args
    if isinstance(v, VC):
        return [(st, VC(format(v.py, spec.py)))]
    return [(st, VStr(UF_HEXU(S.to_int_term(v))))]


@uninterpreted(_hex_sym)
def fmt(v, spec):
    return format(v, spec)


def fmt_hook(eng, st, v, spec, origin):
    if spec == "X" and isinstance(v, (VInt, VBool)):
        eng.use("format(int, 'X'): upper-case hexadecimal digits of a non-negative int ('-' + digits for a negative one); int(text, 16) reads it back")
        return [(st, VStr(UF_HEXU(S.to_int_term(v))))]
    if spec == ".16g" and isinstance(v, VFloat):
        eng.use("format(float, '.16g'): correctly rounded to 16 significant digits; no exponent for 1e-4 <= |v| < 1e16")
        lo, hi = S.fpv(1e-4), S.fpv(1e16)
        a = z3.fpAbs(v.t)
        st.obligations.append(("call:format(.16g).no_exponent_domain@" + origin, z3.And(z3.fpGEQ(a, lo), z3.fpLT(a, hi))))
        return [(st, VStr(UF_G16(v.t)))]
    return None


# ------------------------------------------------------------------------------------------- format_int
def fi_pre(value, in_hashes):
    return True


def fi_post(value, in_hashes, result):
    # the text is IC10 syntax for exactly this integer: decimal, or '$' + hexadecimal digits for a non-negative value
    return result == str(value) or (value >= 0 and result == "$" + fmt(value, "X"))


def format_int_block(eng):
    tree = X.module_ast("utils.py")
    f = X.find_function(tree, "format_int")
    stmts = X.block_from(f, "if value <= 10000")
    if len(f.body) - len(stmts) != 1 or not ast.unparse(f.body[0]).startswith("if not _all_hashes"):
        raise Unsupported("sidecar out of date: format_int no longer consists of the cache fill followed by the decision block")
    fn = X.as_function("format_int__decision", ["value", "in_hashes"], stmts)
    return X.vfun(fn, "utils.format_int@decision")


def hashes_contains(eng, st, container, item, origin):
    if isinstance(container, VOpq) and container.tag == "hashset":
        return [(st, st.env["in_hashes"].t if isinstance(st.env.get("in_hashes"), VBool) else fresh("in_hashes", z3.BoolSort()))]
    return None


def native_format_int(value, in_hashes):
    from stationeers_pytrapic import utils

    return utils.format_int(value)


def search_format_int(clause):
    rnd = random.Random(int(os.environ.get("VERIF_SEED", "0") or 0))
    vals = [0, 1, -1, 9999, 10000, 10001, -10000, -10001, 65535, 2**31, -(2**31), 2**32, 2**53, -(2**53), 255, 4096, 123456789, -123456789]
    vals += [rnd.randrange(-(2**53), 2**53) for _ in range(300)]
    from stationeers_pytrapic import utils

    utils.format_int(1)
    vals += list(utils._all_hashes)[:50]
    for v in vals:
        r = native_format_int(v, None)
        if not fi_post(v, None, r):
            return {"value": v}, repr(r)
    return None


# ------------------------------------------------------------------------------------------- IC10Operand
def op_init_pre(value):
    # doubles of magnitude 2**63 and above are integral and leave the 64-bit range of IC10 integer literals
    # (recorded known finding C09-hex-beyond-64-bit); the contract covers the rest
    return not isinstance(value, float) or abs(value) < 9223372036854775808.0


def op_init_post(value, result):
    # the stored value denotes the same number; integral floats and bools are stored as ints (they are printed by format_int)
    return result == value and not isinstance(result, bool) and (not isinstance(result, float) or int(result) != result)


def op_str_post_int(value, result):
    return result == format_int_spec(value)


def _fi_spec_sym(eng, st, args, kwargs, origin):
    (v,) = args
    return [(st, VStr(z3.Function("contract_format_int", z3.IntSort(), z3.StringSort())(S.to_int_term(v))))]


@uninterpreted(_fi_spec_sym)
def format_int_spec(v):
    from stationeers_pytrapic import utils

    return utils.format_int(v)


def native_operand_value(value):
    from stationeers_pytrapic.types import IC10Operand

    return IC10Operand(value).value


def native_operand_text(value):
    from stationeers_pytrapic.types import IC10Operand

    return IC10Operand(value).to_string()


def float_samples(seed, n):
    rnd = random.Random(seed)
    vals = [0.1, 0.5, 1.5, -2.5, 273.15, 0.07 * 100, 250000.0001, -86400.00005, 12345.000001, 1e-5, 3.3e-7, 1.0000000001, 0.099999, 1e-9, 123456.789e3,
            2.0**52 + 0.5, 0.1 + 0.2, 1 / 3, -1 / 7, 1e15 + 0.3, 4.000000000000001, 7.000000000000001, 5e-324, 1e-300, 2.2250738585072014e-308]
    vals += [rnd.uniform(-1000, 1000) for _ in range(n // 4)]
    vals += [rnd.choice([-1, 1]) * 10 ** rnd.uniform(-12, 15) for _ in range(n // 4)]
    vals += [round(rnd.uniform(-10**6, 10**6)) + rnd.choice([1e-9, -1e-9, 1e-7, 3e-10, 1e-12]) for _ in range(n // 4)]
    vals += [rnd.randrange(1, 10**6) / rnd.choice([3, 7, 10, 100, 1000, 8, 16]) for _ in range(n // 4)]
    return vals


def search_operand_init(clause):
    for v in float_samples(int(os.environ.get("VERIF_SEED", "0") or 0), 400) + [True, False, 3.0, -0.0, 2.0**60]:
        r = native_operand_value(v)
        if not op_init_post(v, r):
            return {"value": v}, repr(r)
    return None


def operand_world():
    w = {"__format__": fmt_hook}
    w["_Device"] = VType("_Device")
    w["DeviceId"] = VType("DeviceId")
    w["IC10Register"] = VType("IC10Register")
    w["math"] = VMod("math")
    fi = VFun("builtin", fn=lambda eng, st, a, k, o: _fi_spec_sym(eng, st, a, k, o), name="contract:utils.format_int")
    w["utils"] = VMod("utils", {"format_int": fi})
    return w


def operand_contracts():
    tree = X.module_ast("types.py")
    ci = class_from_source(tree, "IC10Operand")
    classes = {"IC10Operand": ci}
    w = operand_world()
    f_init = ci.methods["__init__"]
    f_str = ci.methods["to_string"]

    def init_fun(eng):
        src = "def make(value):\n    return IC10Operand(value).value\n"
        return X.vfun(ast.parse(src).body[0], "harness:IC10Operand(value).value")

    def str_fun(eng):
        src = "def text(value):\n    return IC10Operand(value).to_string()\n"
        return X.vfun(ast.parse(src).body[0], "harness:IC10Operand(value).to_string()")

    w2 = dict(w)
    w2["IC10Operand"] = VType("IC10Operand")
    cs = []
    cs.append(Contract(
        name="types.IC10Operand.__init__", fun=init_fun, params=[("value", [KFloat(), KInt(), KConst(True), KConst(False), KStr()])],
        pre=op_init_pre, post={"stores_the_same_number_in_canonical_kind": op_init_post}, native=native_operand_value, world=w2, classes=classes, search=search_operand_init,
        describe=dict(X.describe(f_init, "types.py"), track="U (loop-free)", extraction_drops=["type annotations"])))
    cs.append(Contract(
        name="types.IC10Operand.to_string{int}", fun=str_fun, params=[("value", [KInt(), KConst(True), KConst(False)])],
        post={"integers_are_printed_by_format_int": op_str_post_int}, native=native_operand_text, world=w2, classes=classes,
        describe=dict(X.describe(f_str, "types.py"), track="U (loop-free)", extraction_drops=["type annotations"])))
    return cs


def format_int_contract():
    w = {"__format__": fmt_hook, "__contains__": hashes_contains, "_all_hashes": VOpq("hashset", fresh("hashes", z3.DeclareSort("Opq_hashset")))}
    f = X.find_function(X.module_ast("utils.py"), "format_int")
    return Contract(
        name="utils.format_int@decision", fun=format_int_block, params=[("value", [KInt()]), ("in_hashes", [KCustom("bool", lambda st, p: VBool(fresh(p, z3.BoolSort())), lambda m, v: None)])],
        post={"text_is_ic10_syntax_for_the_value": fi_post}, native=native_format_int, world=w, search=search_format_int,
        describe=dict(X.describe(f, "utils.py"), track="U (loop-free block)",
                      extraction_drops=["the cache-fill loop over dir(symbols) (it only decides which of two correct spellings is chosen; `value in _all_hashes` is an arbitrary Boolean here)"]))


# ------------------------------------------------------------------------------------------- opcode scan
def opcode_scan():
    """every IC10(...) / IC10Instruction(...) call with a constant opcode in the code generator: the opcode exists and the
    number of operands (inputs + output) is the one the ISA gives"""
    obs = []
    for rel in ("generate_code.py", "types.py", "compile_pass.py"):
        tree = ast.parse((SRC / rel).read_text())
        for n in ast.walk(tree):
            if not (isinstance(n, ast.Call) and ast.unparse(n.func) in ("IC10", "IC10Instruction") and n.args):
                continue
            a0 = n.args[0]
            if not isinstance(a0, ast.Constant) or not isinstance(a0.value, str):
                continue  # labels (f-strings ending in ':'), table-driven opcodes: covered by the table obligations / bounded grammar check
            op = a0.value
            tgt = f"{rel[:-3]}:{n.lineno}"
            if op == "" or op.endswith(":"):
                continue
            oid = f"{rel[:-3]}@line{n.lineno}:IC10({op!r})#opcode_and_operand_count_match_isa"
            if op not in ISA:
                obs.append(Ob(oid, VIOLATED, kind="exhaustive", backend="eval", target=tgt, replayed=True, witness={"call": ast.unparse(n)[:200]}, detail={"observed": f"opcode {op!r} is not an IC10 instruction"}))
                continue
            has_out, kinds = ISA[op]
            ins = n.args[1] if len(n.args) > 1 else next((k.value for k in n.keywords if k.arg == "inputs"), None)
            out = n.args[2] if len(n.args) > 2 else next((k.value for k in n.keywords if k.arg == "output"), None)
            if not isinstance(ins, ast.List):
                if ins is None and not kinds:
                    n_in = 0
                else:
                    obs.append(Ob(oid, DISCHARGED, kind="exhaustive", backend="eval", target=tgt, detail={"note": "operand list is not a literal; count checked by the bounded grammar check"}))
                    continue
            else:
                n_in = len(ins.elts)
            gives_out = out is not None and not (isinstance(out, ast.Constant) and out.value is None)
            ok = n_in == len(kinds) and (gives_out == has_out or (has_out and not gives_out))  # output may be attached later by the caller (value.output = sym)
            obs.append(Ob(oid, DISCHARGED if ok else VIOLATED, kind="exhaustive", backend="eval", target=tgt, replayed=True, witness={"call": ast.unparse(n)[:200]},
                          detail={} if ok else {"observed": f"{op} takes {len(kinds)} inputs and {'an' if has_out else 'no'} output register; the call passes {n_in} inputs and {'an' if gives_out else 'no'} output"}))
    # the two opcode tables
    from contracts.utils_tables_c import table_keys

    tree = X.module_ast("utils.py")
    for table, arity in (("get_binop_instruction", 2), ("get_unop_instruction", 1)):
        rows = X.dict_rows(X.returned_dict(X.find_function(tree, table)))
        for key, node in rows.items():
            oid = f"utils.{table}{{{key}}}[0]#opcode_exists_with_matching_arity"
            opnode = node.elts[0] if isinstance(node, ast.Tuple) else None
            op = None
            if isinstance(opnode, ast.Constant):
                op = opnode.value
            elif isinstance(opnode, ast.Call) and ast.unparse(opnode.func) == "comp":
                from stationeers_pytrapic import utils

                op = "s" + utils.get_comparison_suffix(opnode.args[0].value)
            if op is None:
                obs.append(Ob(oid, UNDECIDED, kind="exhaustive", backend="eval", target=f"utils.{table}", detail={"reason": "sidecar out of date: opcode is not a constant"}))
                continue
            # unary minus is emitted as `sub r 0 x`: two inputs
            want = 2 if (table == "get_unop_instruction" and op == "sub") else arity
            ok = op in ISA and ISA[op][0] and len(ISA[op][1]) == want
            obs.append(Ob(oid, DISCHARGED if ok else VIOLATED, kind="exhaustive", backend="eval", target=f"utils.{table}", replayed=True, witness={"operator": key, "opcode": op},
                          detail={} if ok else {"observed": f"operator {key!r} is lowered to opcode {op!r}, which {'is not an IC10 instruction' if op not in ISA else 'has a different arity'}"}))
    return obs


# ------------------------------------------------------------------------------------------- bounded: float literals read back
def float_text_check(rep, tier, seed):
    from spec.ic10_machine import parse_number
    from stationeers_pytrapic.types import IC10Operand

    t0 = time.time()
    vals = float_samples(seed, 4000 if tier == "quick" else 200000)
    bad = None
    n = 0
    for v in vals:
        if v != v or abs(v) == math.inf:
            continue
        text = IC10Operand(v).to_string()
        n += 1
        back = parse_number(text)
        if back is None:
            bad = (v, text, "is not an IC10 number literal")
            break
        if float(v).is_integer() and abs(v) <= 2**53:
            if back != v:
                bad = (v, text, f"reads back as {back!r}")
                break
        elif back != v:
            # "to 16 significant digits": the printed decimal is within half a unit of the 16th significant digit of the value
            # (exact decimal arithmetic; a correctly rounded 16-digit rendering satisfies this with equality at worst)
            from decimal import Decimal, InvalidOperation

            try:
                pd, dv = Decimal(text), Decimal(v)
            except InvalidOperation:
                pd = dv = None
            if pd is None or abs(pd - dv) > Decimal(5) * Decimal(10) ** (dv.adjusted() - 16) or abs(back - v) > 1e-15 * abs(v):
                bad = (v, text, f"reads back as {back!r}: differs from the computed value within the first 16 significant digits")
                break
    ob = Ob("types.IC10Operand.to_string{float}#literal_reads_back", HELD if not bad else VIOLATED, kind="bounded", backend="native", target="types.IC10Operand.to_string",
            bound=f"{n} doubles (uniform, log-uniform 1e-12..1e15, near-integers, short decimals)", time_s=time.time() - t0)
    if bad:
        ob.witness, ob.replayed = {"value": bad[0]}, True
        ob.detail["observed"] = f"printed as {bad[1]!r}, which {bad[2]}"
    rep.add(ob)
    return n


# ------------------------------------------------------------------------------------------- IC10Instruction.to_string
# One emitted line = indentation, opcode, output register, inputs in order, each separated by one blank, then the comment.
# Checked on the real method for 0..4 inputs (every IC10 instruction has at most 6 operands; the loop over the concrete-length
# input list is unrolled completely), operands being plain tokens or registers, with / without output and comment.
def _line_spec(op, indent, comment, out_text, toks):
    text = " " * (indent * 2) + op
    if out_text is not None:
        text = text + " " + out_text
    for t in toks:
        text = text + " " + t
    if comment:
        text = text + "  # " + comment
    return text


def instr_post(ins, op, indent, comment, out_text, toks, result):
    return result == _line_spec(op, indent, comment, out_text, toks)


def instruction_contracts():
    from pyvc.state import fresh as _fresh

    tree = X.module_ast("types.py")
    classes = {n: class_from_source(tree, n) for n in ("IC10Operand", "IC10Instruction", "IC10Register")}
    f_str = classes["IC10Instruction"].methods["to_string"]
    w = operand_world()
    w["IC10Operand"] = VType("IC10Operand")
    w["IC10Register"] = VType("IC10Register")
    w["_DevicesLogicType"] = VType("_DevicesLogicType")
    w["CompilerError"] = VType("CompilerError")
    w["module:compile_pass"] = VMod("compile_pass", {"CompilerError": VType("CompilerError")})
    STRS = z3.StringSort()

    def reg(st, name):
        return st.new_obj("IC10Register", {"name": VC(name), "scope": VC(""), "code_expr": VStr(_fresh(name + "_text", STRS)), "_color": VC(0)})

    cs = []
    for k in range(0, 5):
        for shape in (["tok"] * k, ["reg"] + ["tok"] * (k - 1) if k else None, ["tok"] * (k - 1) + ["reg"] if k > 1 else None):
            if shape is None:
                continue
            for has_out in (False, True):
                def mk(st, pname, shape=tuple(shape), has_out=has_out):
                    toks, ops = [], []
                    for i, kind in enumerate(shape):
                        if kind == "reg":
                            r = reg(st, f"in{i}")
                            ops.append(st.new_obj("IC10Operand", {"value": r}))
                            toks.append(st.store[r.oid]["code_expr"])
                        else:
                            t = VStr(_fresh(f"tok{i}", STRS))
                            ops.append(st.new_obj("IC10Operand", {"value": t}))
                            toks.append(t)
                    out = reg(st, "out") if has_out else VC(None)
                    op = VStr(_fresh("op", STRS))
                    st.assume(z3.Length(op.t) >= 1)
                    indent = VInt(_fresh("indent", z3.IntSort()))
                    st.assume(indent.t >= 0)
                    comment = VStr(_fresh("comment", STRS))
                    ins = st.new_obj("IC10Instruction", {"op": op, "inputs": st.new_list(ops), "output": out, "comment": comment, "indent": indent, "node": VC(None), "lineno": VC(None)})
                    st.ghost["line"] = (op, indent, comment, st.store[out.oid]["code_expr"] if has_out else VC(None), VTuple(toks))
                    return ins

                kind = KCustom(f"{k} inputs ({'/'.join(shape) or '-'}), {'with' if has_out else 'no'} output", mk, lambda m, v: None)

                def fun(eng):
                    return X.vfun(ast.parse("def render(ins):\n    return ins.to_string()\n").body[0], "harness:IC10Instruction.to_string")

                def setup(eng, st, args):
                    op, indent, comment, out_text, toks = st.ghost["line"]
                    st.ghost["spec_args"] = [op, indent, comment, out_text, toks]

                cs.append((kind, fun, setup))
    kinds = [c[0] for c in cs]

    def ghost_args(eng, st, v):
        return VTuple([v] + list(st.ghost["line"]))

    def post(ins, result):
        text, op, indent, comment, out_text, toks = result
        return text == _line_spec(op, indent, comment, out_text, toks)

    def search_instr(clause):
        import itertools

        from stationeers_pytrapic.types import IC10Instruction, IC10Register

        for k, indent, comment, has_out in itertools.product(range(0, 5), (0, 1, 3), ("", "note"), (False, True)):
            toks = [["d0", "Setting", "r7", "42", 'HASH("a b")'][i] for i in range(k)]
            out = IC10Register("o", code_expr="r3") if has_out else None
            ins_ = IC10Instruction("add", [IC10Register(f"i{i}", code_expr=t) if i == 0 and t.startswith("r") else t for i, t in enumerate(toks)], out, comment=comment, indent=indent)
            got = ins_.to_string()
            want = _line_spec("add", indent, comment, "r3" if has_out else None, toks)
            if got != want:
                return {"op": "add", "inputs": toks, "output": "r3" if has_out else None, "indent": indent, "comment": comment}, repr(got)
        return None

    c = Contract(name="types.IC10Instruction.to_string", fun=cs[0][1], params=[("ins", kinds)], post={"line_is_opcode_output_inputs_in_order_then_comment": post},
                 raises={}, native=None, world=w, classes=classes, result_view=ghost_args, search=search_instr, timeout=60.0,
                 describe=dict(X.describe(f_str, "types.py"), track="K-complete: 0..4 inputs (tokens / registers), with / without output register; indentation, opcode, operand texts and comment symbolic",
                               extraction_drops=["type annotations"]))
    c.feas_timeout_ms = 300
    return [c]
