"""C01: the device / slot / stack / batch emitters of types.py under contract.

For every receiver (device id or reference id, own stack or another device's, named or unnamed batch) and every value, the
instruction object the emitter returns - read through the operand ROLES of spec/ic10_isa.py - accesses exactly the device,
address / logic type / slot and value given by the receiver's fields, in the order the instruction set defines.
The real methods, the accessor properties of _BaseAccess / _BaseBatchAccess, IC10Instruction.__init__ and
IC10Operand.__init__ are all executed from the working tree's source."""
from __future__ import annotations

import ast

import z3

from pyvc import extract as X
from pyvc import pysem as S
from pyvc.builtins_model import class_from_source
from pyvc.contract import Contract, KBool, KConst, KCustom, KFloat, KInt, KStr
from pyvc.speclib import uninterpreted
from pyvc.state import fresh
from pyvc.values import *
from spec.ic10_isa import ROLES

REGS = z3.DeclareSort("Opq_register")
UF_HASHTOK = z3.Function("compute_hash_token", z3.StringSort(), z3.StringSort())

CLASSES = ["DeviceId", "_BaseAccess", "_BaseBatchAccess", "_DeviceSlotType", "_DevicesSlotType", "_DeviceLogicType", "_DevicesLogicType", "_StackValue",
           "IC10Instruction", "IC10Operand"]


def classes():
    tree = X.module_ast("types.py")
    return {n: class_from_source(tree, n) for n in CLASSES}


def _hash_token_sym(eng, st, args, kwargs, origin):
    (name,) = args
    return [(st, VStr(UF_HASHTOK(S.to_str_term(name))))]


@uninterpreted(_hash_token_sym)
def hash_token(name):
    """what compute_hash(name) renders under the mode in force (under contract in contracts/tokens_c.py: it denotes the hash of name)"""
    from stationeers_pytrapic import types

    return types.compute_hash(name)


def world():
    w = {}
    for n in ("_Device", "_BaseStructure", "_DevicesLogicType", "IC10Register", "LogicBatchMethod"):
        w[n] = VType(n)
    w["DeviceId"] = VType("DeviceId")
    w["enum"] = VMod("enum", {"IntEnum": VType("IntEnum")})
    w["__opaque_classes__"] = {"register": ("IC10Register",), "lt": ("IntEnum", "LogicType"), "lst": ("IntEnum", "LogicSlotType"), "bm": ("IntEnum", "LogicBatchMethod"),
                               "enumtoken:lt": (), "enumtoken:lst": (), "enumtoken:bm": ()}
    w["compute_hash"] = VFun("builtin", fn=lambda eng, st, a, k, o: (eng.use("callee contract types.compute_hash (C08): the token denotes the signed CRC-32 of its argument"), _hash_token_sym(eng, st, a[:1], {}, o))[1], name="contract:compute_hash")
    w["format_enum"] = VFun("builtin", fn=lambda eng, st, a, k, o: [(st, VOpq("enumtoken:" + a[0].tag, a[0].t))], name="contract:format_enum")
    for n in CLASSES:
        w[n] = VType(n)
    w["IC10"] = w["IC10Instruction"]
    return w


def k_reg():
    return KCustom("register", lambda st, p: VOpq("register", fresh(p, REGS)), lambda m, v: "<register>")


def k_enum(tag):
    srt = z3.DeclareSort("Opq_" + tag)
    return KCustom(tag, lambda st, p: VOpq(tag, fresh(p, srt)), lambda m, v: f"<{tag}>")


def _roles_sym(eng, st, args, kwargs, origin):
    (op,) = args
    if not isinstance(op, VC):
        raise Unsupported("symbolic opcode")
    return [(st, VC(ROLES.get(op.py)))]


@uninterpreted(_roles_sym)
def roles_of(op):
    return ROLES.get(op)


def accessed(instr):
    """{role: operand value} of an access instruction, by the operand order of the instruction set"""
    roles = roles_of(instr.op)
    if roles is None or len(roles) != len(instr.inputs):
        return None
    return {roles[i]: instr.inputs[i].value for i in range(len(roles))}


# ------------------------------------------------------------------------------------------- receivers
def mk_dev_obj(st, dev_id, is_ref, slot_index=None, batch_mode=VC(None)):
    did = st.new_obj("DeviceId", {"_id": dev_id, "_is_ref_id": is_ref})
    return st.new_obj("_BaseStructure", {"_dev_id": did, "_prefab_name": VC("StructureX"), "_name": VC(None), "_batch_mode": batch_mode, "_slot_index": slot_index})


def harness(cls, method, fields, call_args):
    """def h(<params>): return <cls>(<obj built by setup>, <fields>).<method>(<call args>)"""
    src = f"def h({', '.join(['obj'] + fields + call_args)}):\n    return {cls}({', '.join(['obj'] + fields)}).{method}({', '.join(call_args)})\n"
    return lambda eng: X.vfun(ast.parse(src).body[0], f"harness:{cls}.{method}")


def k_devobj(idkind, refkind):
    def mk(st, p):
        return mk_dev_obj(st, idkind.make(st, p + "_id"), refkind.make(st, p + "_ref"), slot_index=VInt(fresh(p + "_slot", z3.IntSort())))

    return KCustom(f"device(id:{idkind.name}, ref:{refkind.name})", mk, lambda m, v: "<device object>")


def dev_id_of(obj):
    return obj._dev_id._id


def is_ref_of(obj):
    return obj._dev_id._is_ref_id


def dom_pre(obj, x, value):
    # float operands of magnitude 2**63 and more are outside the contract of IC10Operand.__init__ (C09);
    # a device id is None, a register, or a non-empty name
    return (not isinstance(value, float) or abs(value) < 9223372036854775808.0) and not (isinstance(obj._dev_id._id, str) and obj._dev_id._id == "")


def batch_pre(bobj, x, value):
    return not isinstance(value, float) or abs(value) < 9223372036854775808.0


# ---- _StackValue
def stack_set_post(obj, addr, value, result):
    got = accessed(result)
    if got is None or result.output is not None:
        return False
    if is_ref_of(obj):
        return got == {"id": dev_id_of(obj), "addr": addr, "val": value}
    if dev_id_of(obj) is None or dev_id_of(obj) == "db":
        return got == {"addr": addr, "val": value}
    return got == {"dev": dev_id_of(obj), "addr": addr, "val": value}


def stack_load_post(obj, addr, out, result):
    got = accessed(result)
    if got is None or result.output is not out:
        return False
    if is_ref_of(obj):
        return got == {"id": dev_id_of(obj), "addr": addr}
    if dev_id_of(obj) is None:
        return got == {"dev": "db", "addr": addr}
    return got == {"dev": dev_id_of(obj), "addr": addr}


# ---- _DeviceLogicType (single device; batch mode None)
def logic_set_post(obj, lt, value, result):
    got = accessed(result)
    return got is not None and result.output is None and result.op == "s" and got == {"dev": dev_id_of(obj), "lt": enum_token(lt), "val": value}


def logic_load_post(obj, lt, out, result):
    got = accessed(result)
    return got is not None and result.output is out and result.op == "l" and got == {"dev": dev_id_of(obj), "lt": enum_token(lt)}


# ---- _DeviceSlotType
def slot_set_post(obj, lst, value, result):
    got = accessed(result)
    return got is not None and result.output is None and result.op == "ss" and got == {"dev": dev_id_of(obj), "slot": obj._slot_index, "lst": enum_token(lst), "val": value}


def slot_load_post(obj, lst, out, result):
    got = accessed(result)
    return got is not None and result.output is out and result.op == "ls" and got == {"dev": dev_id_of(obj), "slot": obj._slot_index, "lst": enum_token(lst)}


# ---- batches
def batch_set_post(bobj, lt, value, result):
    got = accessed(result)
    if got is None or result.output is not None:
        return False
    if bobj._name is None:
        return result.op == "sb" and got == {"hash": hash_token(bobj._prefab_name), "lt": enum_token(lt), "val": value}
    return result.op == "sbn" and got == {"hash": hash_token(bobj._prefab_name), "namehash": hash_token(bobj._name), "lt": enum_token(lt), "val": value}


def batch_slot_set_post(bobj, lst, value, result):
    got = accessed(result)
    return got is not None and result.output is None and result.op == "sbs" and got == {"hash": hash_token(bobj._prefab_name), "slot": bobj._slot_index, "lst": enum_token(lst), "val": value}


def batch_load_post(bobj, lt, bm, out, result):
    got = accessed(result)
    if got is None or result.output is not out:
        return False
    if bobj._name is None:
        return result.op == "lb" and got == {"hash": hash_token(bobj._prefab_name), "lt": enum_token(lt), "bm": enum_token(bm)}
    return result.op == "lbn" and got == {"hash": hash_token(bobj._prefab_name), "namehash": hash_token(bobj._name), "lt": enum_token(lt), "bm": enum_token(bm)}


def batch_slot_load_post(bobj, lst, bm, out, result):
    got = accessed(result)
    if got is None or result.output is not out:
        return False
    if bobj._name is None:
        return result.op == "lbs" and got == {"hash": hash_token(bobj._prefab_name), "slot": bobj._slot_index, "lst": enum_token(lst), "bm": enum_token(bm)}
    return result.op == "lbns" and got == {"hash": hash_token(bobj._prefab_name), "namehash": hash_token(bobj._name), "slot": bobj._slot_index, "lst": enum_token(lst), "bm": enum_token(bm)}


def load_harness(cls, field):
    src = f"def h(obj, {field}, bm, out):\n    return {cls}(obj, {field})._load(bm)(out)\n"
    return lambda eng: X.vfun(ast.parse(src).body[0], f"harness:{cls}._load")


def _enum_token_sym(eng, st, args, kwargs, origin):
    (a,) = args
    return [(st, VOpq("enumtoken:" + a.tag, a.t))]


@uninterpreted(_enum_token_sym)
def enum_token(member):
    from stationeers_pytrapic import utils

    return utils.format_enum(member)


def k_batchobj(named):
    def mk(st, p):
        name = VStr(fresh(p + "_name", z3.StringSort())) if named else VC(None)
        prefab = VStr(fresh(p + "_prefab", z3.StringSort()))
        st.assume(z3.Length(prefab.t) > 0)
        return st.new_obj("_BaseStructures", {"_name": name, "_prefab_name": prefab, "_slot_index": VInt(fresh(p + "_slot", z3.IntSort()))})

    return KCustom("named batch" if named else "batch", mk, lambda m, v: "<batch object>")


def emitter_contracts():
    cl = classes()
    w = world()
    tree = X.module_ast("types.py")
    desc = lambda q: dict(X.describe(X.find_function(tree, q), "types.py"), track="U (loop-free; accessor properties, IC10Instruction.__init__ and IC10Operand.__init__ inlined from the real source)",
                          extraction_drops=["type annotations", "dataclass-generated __init__ modelled as field assignment"])
    ids = [KStr(), KConst(None), KConst("db"), k_reg()]
    vals = [KFloat(), KInt(), k_reg()]
    addrs = [KInt(), k_reg()]
    devs = [k_devobj(i, r) for i in ids for r in (KConst(False), KConst(True))]
    cs = []
    cs.append(Contract(name="types._StackValue._set", fun=harness("_StackValue", "_set", ["addr"], ["value"]), params=[("obj", devs), ("addr", addrs), ("value", vals)], pre=dom_pre,
                       post={"writes_the_given_cell_of_the_given_stack": stack_set_post}, world=w, classes=cl, describe=desc("_StackValue._set")))
    cs.append(Contract(name="types._StackValue._load", fun=harness("_StackValue", "_load", ["addr"], ["out"]), params=[("obj", devs), ("addr", addrs), ("out", [k_reg()])], pre=dom_pre,
                       post={"reads_the_given_cell_of_the_given_stack": stack_load_post}, world=w, classes=cl, describe=desc("_StackValue._load")))
    plain = [k_devobj(i, KConst(False)) for i in (KStr(), k_reg())]
    cs.append(Contract(name="types._DeviceLogicType._set", fun=harness("_DeviceLogicType", "_set", ["lt"], ["value"]), params=[("obj", plain), ("lt", [k_enum("lt")]), ("value", vals)], pre=dom_pre,
                       post={"sets_the_given_logic_type_of_the_given_device": logic_set_post}, world=w, classes=cl, describe=desc("_DeviceLogicType._set")))
    cs.append(Contract(name="types._DeviceLogicType._load", fun=harness("_DeviceLogicType", "_load", ["lt"], ["out"]), params=[("obj", plain), ("lt", [k_enum("lt")]), ("out", [k_reg()])],
                       post={"loads_the_given_logic_type_of_the_given_device": logic_load_post}, world=w, classes=cl, describe=desc("_DeviceLogicType._load")))
    cs.append(Contract(name="types._DeviceSlotType._set", fun=harness("_DeviceSlotType", "_set", ["lst"], ["value"]), params=[("obj", plain), ("lst", [k_enum("lst")]), ("value", vals)], pre=dom_pre,
                       post={"sets_the_given_slot_value": slot_set_post}, world=w, classes=cl, describe=desc("_DeviceSlotType._set")))
    cs.append(Contract(name="types._DeviceSlotType._load", fun=harness("_DeviceSlotType", "_load", ["lst"], ["out"]), params=[("obj", plain), ("lst", [k_enum("lst")]), ("out", [k_reg()])],
                       post={"loads_the_given_slot_value": slot_load_post}, world=w, classes=cl, describe=desc("_DeviceSlotType._load")))
    batches = [k_batchobj(False), k_batchobj(True)]
    cs.append(Contract(name="types._DevicesLogicType._set", fun=harness("_DevicesLogicType", "_set", ["lt"], ["value"]), params=[("obj", batches), ("lt", [k_enum("lt")]), ("value", vals)], pre=batch_pre,
                       post={"sets_the_logic_type_on_the_batch_named_by_prefab_and_name": batch_set_post}, world=w, classes=cl, describe=desc("_DevicesLogicType._set")))
    cs.append(Contract(name="types._DevicesSlotType._set", fun=harness("_DevicesSlotType", "_set", ["lst"], ["value"]), params=[("obj", [k_batchobj(False)]), ("lst", [k_enum("lst")]), ("value", vals)], pre=batch_pre,
                       post={"sets_the_slot_value_on_the_batch": batch_slot_set_post}, world=w, classes=cl, describe=desc("_DevicesSlotType._set")))
    cs.append(Contract(name="types._DevicesLogicType._load", fun=load_harness("_DevicesLogicType", "lt"), params=[("obj", batches), ("lt", [k_enum("lt")]), ("bm", [k_enum("bm")]), ("out", [k_reg()])],
                       post={"loads_the_logic_type_of_the_batch_named_by_prefab_and_name": batch_load_post}, raises={"ValueError": True}, world=w, classes=cl, describe=desc("_DevicesLogicType._load")))
    cs.append(Contract(name="types._DevicesSlotType._load", fun=load_harness("_DevicesSlotType", "lst"), params=[("obj", batches), ("lst", [k_enum("lst")]), ("bm", [k_enum("bm")]), ("out", [k_reg()])],
                       post={"loads_the_slot_value_of_the_batch": batch_slot_load_post}, world=w, classes=cl, describe=desc("_DevicesSlotType._load")))
    for c in cs:
        c.feas_timeout_ms = 300
    return cs


def _wrap_batch(fn):
    return fn
