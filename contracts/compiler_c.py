"""Sidecar contracts for compiler.compile_code's directive scanner (C15) and its pre-`try` part (C10).

P  compiler.compile_code@for-tag   the body of `for tag in tokens:` under contract: for one tag string the eight options are
                                   updated exactly as the property's normalisation says, nothing else is written
B  compiler.compile_code#directives the whole scanner against an independent reading of the property, options observed by
                                   rebinding compiler.Compiler inside the checking process (no repo edit)"""
from __future__ import annotations

import ast
import itertools
import os
import random

import z3

from pyvc import extract as X
from pyvc.builtins_model import ClassInfo, class_from_source
from pyvc.contract import Contract, KBool, KCustom, KStr
from pyvc.values import *

OPTION_FIELDS = ["original_code_as_comment", "generated_comments", "inline_functions", "remove_labels", "append_version",
                 "compact", "tail_call_optimization", "use_push_pop_functions"]


# ------------------------------------------------------------------------------- specification (from the property text)
def spec_name(t):
    s = t.strip().replace("-", "_")
    if s.startswith("no_"):
        return s[3:].strip()
    return s


def spec_value(t):
    s = t.strip().replace("-", "_")
    return not s.startswith("no_")


def tag_post(tag, o0, o1, o2, o3, o4, o5, o6, o7, result):
    n = spec_name(tag)
    v = spec_value(tag)
    before = (o0, o1, o2, o3, o4, o5, o6, o7)
    names = ("original_code_as_comment", "generated_comments", "inline_functions", "remove_labels", "append_version",
             "compact", "tail_call_optimization", "use_push_pop_functions")
    return all((result[i] == v) if n == names[i] else (result[i] == before[i]) for i in range(8))


def spec_scan(main_module, caller):
    """independent reading of property C15: -> dict of option values after all directive lines"""
    opts = dict(caller)
    for line in main_module.splitlines():
        stripped = line.lstrip()
        if not stripped.startswith("#"):
            continue
        body = stripped[1:]
        k = body.find("pytrapic:")
        if k < 0:
            continue
        for t in body[k + len("pytrapic:"):].split(","):
            n, v = spec_name(t), spec_value(t)
            if n in opts:
                opts[n] = v
    return opts


# ------------------------------------------------------------------------------- P: the tag block
def real_fields():
    tree = X.module_ast("compile_pass.py")
    ci = class_from_source(tree, "CompileOptions")
    return [f[0] for f in ci.fields]


def tag_block_fun(eng):
    tree = X.module_ast("compiler.py")
    f = X.find_function(tree, "compile_code")
    loops = [n for n in ast.walk(f) if isinstance(n, ast.For) and isinstance(n.target, ast.Name) and n.target.id == "tag"]
    if len(loops) != 1:
        raise Unsupported(f"sidecar out of date: expected one `for tag in ...` loop in compile_code, found {len(loops)}")
    body = loops[0].body
    names = [f"o{i}" for i in range(8)]
    pre = ast.parse("options = CompileOptions(" + ", ".join(names) + ")").body
    post = ast.parse("return (" + ", ".join(f"options.{n}" for n in OPTION_FIELDS) + ")").body
    fn = X.as_function("compile_code__for_tag_body", ["tag"] + names, pre + list(body) + post)
    return X.vfun(fn, "compiler.compile_code@for-tag")


def tag_world():
    fields = real_fields()
    w = {}
    tree = X.module_ast("compile_pass.py")
    ci = class_from_source(tree, "CompileOptions")
    w["CompileOptions"] = VType("CompileOptions")
    w["CompileOptions.__dataclass_fields__"] = VC(tuple(fields))
    return w, {"CompileOptions": ci}


_CAPTURE = {}


def capture_options(src, caller):
    """run the real compile_code with compiler.Compiler rebound to a recorder; -> options the scanner produced"""
    from stationeers_pytrapic import compiler as C

    class Recorder:
        def __init__(self, options):
            _CAPTURE["options"] = options

        def compile(self, src):
            return {"code": "", "num_lines": 0, "num_registers": 0, "num_bytes": 0}

    old = C.Compiler
    C.Compiler = Recorder
    try:
        opts = C.CompileOptions(**caller)
        C.compile_code(src, opts)
    finally:
        C.Compiler = old
    o = _CAPTURE.pop("options")
    return {n: getattr(o, n) for n in OPTION_FIELDS}, {n: getattr(opts, n) for n in OPTION_FIELDS}


def native_tag(tag, *before):
    caller = dict(zip(OPTION_FIELDS, before))
    got, _ = capture_options("# pytrapic: " + tag + "\nx = 1\n", caller)
    return tuple(got[n] for n in OPTION_FIELDS)


TAG_POOL = ["compact", "no-compact", "no_compact", " compact ", "no- compact", "no_ compact", "remove-labels", "remove_labels", "no-remove-labels",
            "inline_functions", "no-inline-functions", "original_code_as_comment", "no-original-code-as-comment", "no_original_code_as_comment",
            "generated-comments", "no_generated_comments", "append_version", "no-append-version", "tail_call_optimization", "no-tail-call-optimization",
            "use_push_pop_functions", "no_use-push-pop-functions", "nocompact", "no", "no_", "", "compact2", "Compact", "__class__", "no___init__",
            "no-no-compact", "no_no_compact", "o_compact", "n", "_compact", "compact_", "no_nothing", "no_n", "no_o", "no_oo_compact", "non_compact"]


def search_tag(clause):
    rnd = random.Random(int(os.environ.get("VERIF_SEED", "0") or 0))
    for tag in TAG_POOL:
        if "," in tag or "\n" in tag or "#" in tag:
            continue
        for _ in range(3):
            before = tuple(rnd.random() < 0.5 for _ in range(8))
            r = native_tag(tag, *before)
            if not tag_post(tag, *before, r):
                return dict(tag=tag, **{f"o{i}": b for i, b in enumerate(before)}), repr(r)
    return None


def tag_contract():
    w, classes = tag_world()
    f = X.find_function(X.module_ast("compiler.py"), "compile_code")
    c = Contract(
        name="compiler.compile_code@for-tag", fun=tag_block_fun,
        params=[("tag", [KStr()])] + [(f"o{i}", [KBool()]) for i in range(8)],
        post={"options_updated_as_specified": tag_post}, native=native_tag, world=w, classes=classes, search=search_tag,
        describe=dict(X.describe(f, "compiler.py"), track="U (loop-free block: body of `for tag in tokens`)",
                      extraction_drops=["the block is wrapped as a function of (tag, eight option values) returning the eight option values"]))
    c.feas_timeout_ms = 150  # path pruning only; string constraints over uninterpreted strip/replace rarely prune anything
    return c


# ------------------------------------------------------------------------------- B: the whole scanner
def directive_sources(seed, n):
    rnd = random.Random(seed)
    names = OPTION_FIELDS
    spell = lambda nm: rnd.choice([nm, nm.replace("_", "-"), "no-" + nm, "no_" + nm, "no-" + nm.replace("_", "-"), " " + nm + " "])
    pool = []
    for _ in range(n):
        lines = []
        for _ in range(rnd.randrange(1, 5)):
            k = rnd.random()
            tags = ", ".join(rnd.choice([spell(rnd.choice(names)), rnd.choice(TAG_POOL)]) for _ in range(rnd.randrange(1, 4)))
            if k < 0.5:
                lines.append(rnd.choice(["# pytrapic: ", "#pytrapic:", "  # pytrapic:  ", "\t#  x pytrapic: ", "## pytrapic: "]) + tags)
            elif k < 0.65:
                lines.append("x = 1  # pytrapic: " + tags)           # after code: no effect
            elif k < 0.8:
                lines.append('s = "# pytrapic: ' + tags.replace('"', "") + '"')   # inside a string on a code line: no effect
            elif k < 0.9:
                lines.append("# pytrapic " + tags)                    # no colon
            else:
                lines.append("# pytrapic: " + tags + " # pytrapic: " + spell(rnd.choice(names)))
        pool.append("\n".join(lines) + "\nx = 1\n")
    return pool
