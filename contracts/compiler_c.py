"""Sidecar contracts for compiler.compile_code's directive scanner (C15) and its pre-`try` part (C10).

P  compiler.compile_code@for-tag   the body of `for tag in tokens:` under contract: for one tag string the eight options are
                                   updated exactly as the property's normalisation says, nothing else is written
B  compiler.compile_code#directives the whole scanner against an independent reading of the property, options observed by
                                   rebinding compiler.Compiler inside the checking process (no repo edit)"""
from __future__ import annotations

import ast
import itertools
import os
import random

import z3

from pyvc import extract as X
from pyvc.builtins_model import ClassInfo, class_from_source
from pyvc.contract import Contract, KBool, KCustom, KStr
from pyvc.values import *

OPTION_FIELDS = ["original_code_as_comment", "generated_comments", "inline_functions", "remove_labels", "append_version",
                 "compact", "tail_call_optimization", "use_push_pop_functions"]


# ------------------------------------------------------------------------------- specification (from the property text)
def spec_name(t):
    s = t.strip().replace("-", "_")
    if s.startswith("no_"):
        return s[3:].strip()
    return s


def spec_value(t):
    s = t.strip().replace("-", "_")
    return not s.startswith("no_")


def tag_post(tag, o0, o1, o2, o3, o4, o5, o6, o7, result):
    n = spec_name(tag)
    v = spec_value(tag)
    before = (o0, o1, o2, o3, o4, o5, o6, o7)
    names = ("original_code_as_comment", "generated_comments", "inline_functions", "remove_labels", "append_version",
             "compact", "tail_call_optimization", "use_push_pop_functions")
    return all((result[i] == v) if n == names[i] else (result[i] == before[i]) for i in range(8))


def spec_scan(main_module, caller):
    """independent reading of property C15: -> dict of option values after all directive lines"""
    opts = dict(caller)
    for line in main_module.splitlines():
        stripped = line.lstrip()
        if not stripped.startswith("#"):
            continue
        body = stripped[1:]
        k = body.find("pytrapic:")
        if k < 0:
            continue
        for t in body[k + len("pytrapic:"):].split(","):
            n, v = spec_name(t), spec_value(t)
            if n in opts:
                opts[n] = v
    return opts


# ------------------------------------------------------------------------------- P: the tag block
def real_fields():
    tree = X.module_ast("compile_pass.py")
    ci = class_from_source(tree, "CompileOptions")
    return [f[0] for f in ci.fields]


def tag_block_fun(eng):
    tree = X.module_ast("compiler.py")
    f = X.find_function(tree, "compile_code")
    loops = [n for n in ast.walk(f) if isinstance(n, ast.For) and isinstance(n.target, ast.Name) and n.target.id == "tag"]
    if len(loops) != 1:
        raise Unsupported(f"sidecar out of date: expected one `for tag in ...` loop in compile_code, found {len(loops)}")
    body = loops[0].body
    names = [f"o{i}" for i in range(8)]
    pre = ast.parse("options = CompileOptions(" + ", ".join(names) + ")").body
    post = ast.parse("return (" + ", ".join(f"options.{n}" for n in OPTION_FIELDS) + ")").body
    fn = X.as_function("compile_code__for_tag_body", ["tag"] + names, pre + list(body) + post)
    return X.vfun(fn, "compiler.compile_code@for-tag")


def tag_world():
    fields = real_fields()
    w = {}
    tree = X.module_ast("compile_pass.py")
    ci = class_from_source(tree, "CompileOptions")
    w["CompileOptions"] = VType("CompileOptions")
    w["CompileOptions.__dataclass_fields__"] = VC(tuple(fields))
    return w, {"CompileOptions": ci}


_CAPTURE = {}


def capture_options(src, caller):
    """run the real compile_code with compiler.Compiler rebound to a recorder; -> options the scanner produced"""
    from stationeers_pytrapic import compiler as C

    class Recorder:
        def __init__(self, options):
            _CAPTURE["options"] = options

        def compile(self, src):
            return {"code": "", "num_lines": 0, "num_registers": 0, "num_bytes": 0}

    old = C.Compiler
    C.Compiler = Recorder
    try:
        opts = C.CompileOptions(**caller)
        C.compile_code(src, opts)
    finally:
        C.Compiler = old
    o = _CAPTURE.pop("options")
    return {n: getattr(o, n) for n in OPTION_FIELDS}, {n: getattr(opts, n) for n in OPTION_FIELDS}


def native_tag(tag, *before):
    caller = dict(zip(OPTION_FIELDS, before))
    got, _ = capture_options("# pytrapic: " + tag + "\nx = 1\n", caller)
    return tuple(got[n] for n in OPTION_FIELDS)


TAG_POOL = ["compact", "no-compact", "no_compact", " compact ", "no- compact", "no_ compact", "remove-labels", "remove_labels", "no-remove-labels",
            "inline_functions", "no-inline-functions", "original_code_as_comment", "no-original-code-as-comment", "no_original_code_as_comment",
            "generated-comments", "no_generated_comments", "append_version", "no-append-version", "tail_call_optimization", "no-tail-call-optimization",
            "use_push_pop_functions", "no_use-push-pop-functions", "nocompact", "no", "no_", "", "compact2", "Compact", "__class__", "no___init__",
            "no-no-compact", "no_no_compact", "o_compact", "n", "_compact", "compact_", "no_nothing", "no_n", "no_o", "no_oo_compact", "non_compact"]


def search_tag(clause):
    rnd = random.Random(int(os.environ.get("VERIF_SEED", "0") or 0))
    for tag in TAG_POOL:
        if "," in tag or "\n" in tag or "#" in tag:
            continue
        for _ in range(3):
            before = tuple(rnd.random() < 0.5 for _ in range(8))
            r = native_tag(tag, *before)
            if not tag_post(tag, *before, r):
                return dict(tag=tag, **{f"o{i}": b for i, b in enumerate(before)}), repr(r)
    return None


def tag_contract():
    w, classes = tag_world()
    f = X.find_function(X.module_ast("compiler.py"), "compile_code")
    c = Contract(
        name="compiler.compile_code@for-tag", fun=tag_block_fun,
        params=[("tag", [KStr()])] + [(f"o{i}", [KBool()]) for i in range(8)],
        post={"options_updated_as_specified": tag_post}, native=native_tag, world=w, classes=classes, search=search_tag,
        describe=dict(X.describe(f, "compiler.py"), track="U (loop-free block: body of `for tag in tokens`)",
                      extraction_drops=["the block is wrapped as a function of (tag, eight option values) returning the eight option values"]))
    c.feas_timeout_ms = 150  # path pruning only; string constraints over uninterpreted strip/replace rarely prune anything
    return c


# ------------------------------------------------------------------------------- B: the whole scanner
def directive_sources(seed, n):
    rnd = random.Random(seed)
    names = OPTION_FIELDS
    spell = lambda nm: rnd.choice([nm, nm.replace("_", "-"), "no-" + nm, "no_" + nm, "no-" + nm.replace("_", "-"), " " + nm + " "])
    pool = []
    for _ in range(n):
        lines = []
        for _ in range(rnd.randrange(1, 5)):
            k = rnd.random()
            tags = ", ".join(rnd.choice([spell(rnd.choice(names)), rnd.choice(TAG_POOL)]) for _ in range(rnd.randrange(1, 4)))
            if k < 0.5:
                lines.append(rnd.choice(["# pytrapic: ", "#pytrapic:", "  # pytrapic:  ", "\t#  x pytrapic: ", "## pytrapic: "]) + tags)
            elif k < 0.65:
                lines.append("x = 1  # pytrapic: " + tags)           # after code: no effect
            elif k < 0.8:
                lines.append('s = "# pytrapic: ' + tags.replace('"', "") + '"')   # inside a string on a code line: no effect
            elif k < 0.9:
                lines.append("# pytrapic " + tags)                    # no colon
            else:
                lines.append("# pytrapic: " + tags + " # pytrapic: " + spell(rnd.choice(names)))
        pool.append("\n".join(lines) + "\nx = 1\n")
    return pool


# =============================================================================== C10: Compiler.compile never lets an Exception escape
from pyvc.pysem import exc as _exc
from pyvc.state import Raise as _Raise, fresh as _fresh

ANYS = z3.DeclareSort("Opq_any")
F_IS_SYNTAX_ERROR = z3.Function("is_instance_of_SyntaxError", ANYS, z3.BoolSort())

C10_ASSUMED = [
    "CompilerError.node is None or an astroid node (attributes lineno, col_offset, end_lineno, end_col_offset exist); str(CompilerError) does not raise",
    "a SyntaxError instance has the attributes lineno and offset; other objects may lack them",
    "parsing, CodeData(...) and every compiler pass may raise ANY Exception subclass (they are opaque to this proof)",
    "traceback.format_exc() and str(exception) do not raise; the timing helper time() is a no-op (_DO_TIMING is False)",
    "BaseException subclasses that are not Exception (KeyboardInterrupt, SystemExit, GeneratorExit) and memory exhaustion are outside the model",
    "the pass loop is unrolled for two symbolic passes: every iteration may raise or continue, and carries no state that influences exception flow",
]


def _anyv(prefix="a"):
    return VOpq("opt:any", _fresh(prefix, ANYS))


def _raise_any(st, origin):
    s = st.fork()
    e = VExc("Exception", (), origin=origin)
    e.inexact = True
    e.attrs["node"] = VOpq("opt:node", _fresh("node", ANYS))
    e.attrs["error"] = _anyv("err")
    return s, _Raise(e)


def _opaque_call(eng, st, args, kw, origin):
    s0, r0 = _raise_any(st, origin)
    return [(s0, r0), (st.fork(), _anyv("r"))]


def _any_attr(eng, st, obj, name, origin):
    # attribute of an arbitrary object: present only under conditions the code has to establish
    if name in ("lineno", "offset"):
        outs = []
        s1 = eng.branch(st, F_IS_SYNTAX_ERROR(obj.t))
        if s1 is not None:
            outs.append((s1, _anyv(name)))
        s0 = eng.branch(st, z3.Not(F_IS_SYNTAX_ERROR(obj.t)))
        if s0 is not None:
            outs.append((s0, _exc("AttributeError", f"object has no attribute {name!r}", origin)))
        return outs
    s0 = st.fork()
    return [(s0, _exc("AttributeError", name, origin)), (st.fork(), _anyv(name))]


def _node_attr(eng, st, obj, name, origin):
    if name in ("lineno", "col_offset", "end_lineno", "end_col_offset"):
        return [(st, _anyv(name))]
    return [(st.fork(), _exc("AttributeError", name, origin))]


def _isinstance_hook(eng, st, args, kw, origin):
    from pyvc.builtins_model import b_isinstance

    v, t = args
    if isinstance(v, VOpq) and v.tag == "opt:any":
        if isinstance(t, VType) and t.name == "SyntaxError":
            return [(st, S_vbool(F_IS_SYNTAX_ERROR(v.t)))]
        return [(st, VBool(_fresh("isinst", z3.BoolSort())))]
    return b_isinstance(eng, st, args, kw, origin)


def S_vbool(t):
    from pyvc.pysem import vbool

    return vbool(t)


def _getitem_hook(eng, st, obj, idx, origin):
    if isinstance(obj, VOpq) and obj.tag == "opt:any":
        s0, r0 = _raise_any(st, origin)
        return [(s0, r0), (st.fork(), _anyv("item"))]
    return None


def compile_world():
    w = {}
    w["__opqattr__:opt:any"] = _any_attr
    w["__opqattr__:opt:node"] = _node_attr
    w["__getitem__"] = _getitem_hook
    w["__callopq__"] = lambda eng, st, f, args, kw, origin: _opaque_call(eng, st, args, kw, origin)
    w["__comprehension__"] = lambda eng, st, it, node, origin: [_raise_any(st, origin), (st.fork(), _anyv("comp"))]
    w["isinstance"] = VFun("builtin", fn=_isinstance_hook, name="isinstance")
    w["time"] = VFun("builtin", fn=lambda e, s, a, k, o: [(s, VC(None))], name="time")
    w["CompilerError"] = VType("CompilerError")
    w["SyntaxError"] = VType("SyntaxError")
    w["astroid"] = VMod("astroid", {"AstroidSyntaxError": VType("astroid.AstroidSyntaxError")})
    w["CodeData"] = VFun("builtin", fn=_opaque_call, name="CodeData")
    w["module:traceback"] = VMod("traceback", {"format_exc": VFun("builtin", fn=lambda e, s, a, k, o: [(s, VStr(_fresh("tb", z3.StringSort())))], name="format_exc")})
    w["__excattr__"] = lambda eng, st, e, name, origin: [(st, e.attrs[name])] if name in e.attrs else ([(st, VOpq("opt:node", _fresh("node", ANYS)))] if name == "node" else ([(st, _anyv("err"))] if name == "error" else None))
    return w


def _make_self(st, pname):
    passes = st.new_list([VFun("builtin", fn=_pass_ctor, name="pass_cls0"), VFun("builtin", fn=_pass_ctor, name="pass_cls1")])
    return st.new_obj("Compiler", {"passes": passes, "options": _anyv("options"), "_raise_exceptions": VC(False),
                                   "_parse": VFun("builtin", fn=_opaque_call, name="Compiler._parse")})


def _pass_ctor(eng, st, args, kw, origin):
    s0, r0 = _raise_any(st, origin)
    inst = st.fork()
    obj = inst.new_obj("CompilerPass", {"run": VFun("builtin", fn=_opaque_call, name="pass.run")})
    return [(s0, r0), (inst, obj)]


def compile_post(self, src, result):
    return is_pass_result(result) or isinstance(result, dict)


def _is_result_sym(eng, st, args, kw, origin):
    (a,) = args
    return [(st, VC(isinstance(a, VOpq)))]


from pyvc.speclib import uninterpreted as _unint


@_unint(_is_result_sym)
def is_pass_result(r):
    """the value the passes left in data.result (symbolically: the opaque value; natively: a dict with 'code')"""
    return isinstance(r, dict) and "code" in r


def error_dict_has_description(self, src, result):
    # on the exceptional paths the function builds the dictionary itself: it must carry error.description
    return is_pass_result(result) or ("error" in result and "description" in result["error"])


def native_compile(src):
    from stationeers_pytrapic.compiler import CompileOptions, Compiler

    return Compiler(CompileOptions()).compile(src)


def search_compile(clause):
    deep = "-" * 100000 + "1"
    cases = ["", "x = (", "def f(:\n", deep, "not " * 50000 + "1", "~" * 20000 + "1", "\x00", "x = 1\n" * 10, {"": "x=1", "m": "def ("}, {"m": "x"}, 5, None, ["a"],
             "from stationeers_pytrapic.symbols import *\ndb.Setting = unknown_name\n", "class A: pass\n", "import os\n", "lambda: 0\n", "x: int = 3\n", "async def f(): pass\n"]
    for c in cases:
        try:
            r = native_compile(c)
        except RecursionError:
            continue
        except Exception as e:
            return {"src": c if not isinstance(c, str) or len(c) < 300 else c[:100] + f"... ({len(c)} chars)"}, f"raised {type(e).__name__}: {e}"
        if not isinstance(r, dict) or not (("code" in r) or ("error" in r and "description" in r["error"])):
            return {"src": c if not isinstance(c, str) or len(c) < 300 else c[:100] + "..."}, repr(r)[:300]
    return None


def compile_contract():
    tree = X.module_ast("compiler.py")
    f = X.find_function(tree, "Compiler.compile")
    k_self = KCustom("Compiler(_raise_exceptions=False)", _make_self, lambda m, v: "<Compiler>")
    k_any = KCustom("any object", lambda st, p: _anyv(p), lambda m, v: "<object>")
    c = Contract(
        name="compiler.Compiler.compile", fun=lambda eng: X.vfun(f, "compiler.Compiler.compile"),
        params=[("self", [k_self]), ("src", [KStr(), k_any])],
        post={"returns_a_result": compile_post, "error_results_carry_a_description": error_dict_has_description}, raises={},
        native=None, world=compile_world(), search=search_compile,
        describe=dict(X.describe(f, "compiler.py"), track="U (exception flow; the pass loop unrolled for 2 symbolic passes)",
                      extraction_drops=["time(...) calls are no-ops (_DO_TIMING is False: checked syntactically)", "type annotations"]))
    c.feas_timeout_ms = 300
    return c


def timing_is_off():
    tree = X.module_ast("compiler.py")
    vals = [n.value for n in tree.body if isinstance(n, ast.Assign) and any(isinstance(t, ast.Name) and t.id == "_DO_TIMING" for t in n.targets)]
    return len(vals) == 1 and isinstance(vals[0], ast.Constant) and vals[0].value is False


# ------------------------------------------------------------------------------------------- compile_code: never raises
# The whole of compile_code for EVERY source text (a str) and every options object / None: the directive scan (both loops,
# cut by invariants) lets no exception escape, leaves `options` an options object with boolean fields, never touches the
# caller's object, and the value returned is what Compiler(options).compile(src) returns.
def _cc_fields():
    return real_fields()


def cc_inv_options_are_bools(k, options):
    return (isinstance(options.original_code_as_comment, bool) and isinstance(options.generated_comments, bool) and isinstance(options.inline_functions, bool)
            and isinstance(options.remove_labels, bool) and isinstance(options.append_version, bool) and isinstance(options.compact, bool)
            and isinstance(options.tail_call_optimization, bool) and isinstance(options.use_push_pop_functions, bool))


def cc_post_returns_the_compiler_result(src, options, result):
    return result[0] == "compile-result"


def cc_post_callers_options_untouched(src, options, result):
    return result[1]


def compile_code_contract():
    from pyvc.loops import LoopSpec
    from pyvc.state import fresh

    tree = X.module_ast("compiler.py")
    f = X.find_function(tree, "compile_code")
    fields = real_fields()
    w, classes = tag_world()
    BOOL = z3.BoolSort()

    def mk_opts(st, pname):
        o = st.new_obj("CompileOptions", {n: VBool(fresh("o_" + n, BOOL)) for n in fields})
        st.ghost["caller_options"] = (o, {n: st.store[o.oid][n] for n in fields})
        return o

    def h_copy(eng, st, args, kw, origin):
        (o,) = args
        if not isinstance(o, VObj):
            raise Unsupported("copy.copy of something else than the options object")
        eng.use("copy.copy(obj): a new object with the same field values")
        return [(st, st.new_obj(st.store[o.oid]["__class__"], {k: v for k, v in st.store[o.oid].items() if k != "__class__"}))]

    def h_compiler(eng, st, args, kw, origin):
        (o,) = args
        st.ghost["compiler_options"] = o
        return [(st, VOpq("compiler", fresh("compiler", z3.IntSort())))]

    def compiler_attr(eng, st, obj, name, origin):
        if name == "compile":
            def run(e, s, a, k, o):
                e.use("callee contract compiler.Compiler.compile: returns a result dict, no exception escapes (proved separately, C10)")
                return [(s, VC("compile-result"))]

            return [(st, VFun("builtin", fn=run, name="Compiler.compile"))]
        raise Unsupported(f"Compiler.{name}")

    w = dict(w)
    w["module:copy"] = VMod("copy", {"copy": VFun("builtin", fn=h_copy, name="copy.copy")})
    w["copy"] = w["module:copy"]
    w["Compiler"] = VFun("builtin", fn=h_compiler, name="Compiler")
    w["__opqattr__:compiler"] = compiler_attr
    w["set_output_mode"] = VFun("builtin", fn=lambda e, s, a, k, o: [(s, VC(None))], name="set_output_mode")
    w["OutputMode"] = VMod("OutputMode", {"VERBOSE": VC(0), "COMPACT": VC(1), "NUMERIC": VC(2)})

    def havoc_opts(eng, st):
        # the loop bodies write the options object only through setattr on its declared fields
        o = eng.lookup(st, "options")
        for n in fields:
            st.store[o.oid] = dict(st.store[o.oid])
            st.store[o.oid][n] = VBool(fresh("h_" + n, BOOL))

    fn = "compiler.compile_code"
    specs = {f"{fn}@for[line]": LoopSpec([cc_inv_options_are_bools], ["options"], havoc=havoc_opts, name="lines"),
             f"{fn}@for[tag]": LoopSpec([cc_inv_options_are_bools], ["options"], havoc=havoc_opts, name="tags")}

    def view(eng, st, v):
        o, before = st.ghost["caller_options"]
        same = all(st.store[o.oid][n] is before[n] for n in fields) if o is not None else True
        return VTuple([v, VC(bool(same))])

    def mk_none(st, pname):
        st.ghost["caller_options"] = (None, {})
        return VC(None)

    def search_cc(clause):
        import copy as _copy

        from stationeers_pytrapic.compiler import CompileOptions, compile_code

        heads = ["# pytrapic: compact", "#pytrapic:no-compact,remove_labels", "  # pytrapic: __class__", "# pytrapic:", "# pytrapic: ,,", "#", "# pytrapic: no_", "# pytrapic: no-no-compact",
                 "x = 1  # pytrapic: compact", "# pytrapic: compact # pytrapic: remove-labels", "# pytrapic: __dataclass_fields__, __init__, compact", "# pytrapic: no___class__"]
        for h in heads:
            for opts in (None, CompileOptions(), CompileOptions(compact=True, append_version=False)):
                before = _copy.deepcopy(opts)
                try:
                    r = compile_code(h + "\nx = 1\n", opts)
                except BaseException as e:
                    return {"source": h + "\nx = 1\n", "options": repr(opts)}, f"compile_code raised {type(e).__name__}: {e}"
                if not isinstance(r, dict):
                    return {"source": h + "\nx = 1\n", "options": repr(opts)}, f"returned {type(r).__name__}"
                if opts != before:
                    return {"source": h + "\nx = 1\n", "options": repr(before)}, f"the caller's options object was changed to {opts!r}"
        return None

    c = Contract(name="compiler.compile_code", fun=lambda eng: X.vfun(f, fn),
                 params=[("src", [KStr()]), ("options", [KCustom("options object (any field values)", mk_opts, lambda m, v: None), KCustom("None", mk_none, lambda m, v: None)])],
                 post={"returns_what_the_compiler_returns": cc_post_returns_the_compiler_result, "callers_options_object_is_not_written": cc_post_callers_options_untouched},
                 raises={}, world=w, classes=classes, loop_specs=specs, result_view=view, search=search_cc, timeout=60.0,
                 describe=dict(X.describe(f, "compiler.py"), track="U: both loops of the directive scan cut by invariants (options stays an options object with boolean fields); exception flow for every source text",
                               extraction_drops=["type annotations", "src given as a dict of modules (the scan reads src[''] only; a mapping without '' is outside the property's quantifier)", "options given as a dict"]))
    c.feas_timeout_ms = 300
    return c
