"""C04: utils.get_loop_ancestor under contract (the helper that widens a variable's lifetime to an enclosing loop).

The ancestors of the node are a ghost sequence of any length; each ancestor has a symbolic class (function definition, for loop,
while loop, anything else).  Proved for every such chain: if a loop encloses the node inside its function, the result is one of those
loops (so the lifetime built from the result covers the whole loop); otherwise the result is the node itself.  The loop
over the ancestors is cut by an invariant.

Not claimed here: that the OUTERMOST enclosing loop is returned - the code returns the innermost one, which is the recorded
known finding C04-nested-loop-lifetime (witness program replayed on every run)."""
from __future__ import annotations

import z3

from pyvc import extract as X
from pyvc.contract import Contract, KCustom
from pyvc.loops import LoopSpec, SymList
from pyvc.state import fresh
from pyvc.values import *

INT = z3.IntSort()
KIND = z3.Function("ancestor_kind", INT, INT)   # 0 other, 1 FunctionDef, 2 For, 3 While


def ancestor_kind(i):
    raise NotImplementedError("ghost function")


def _sym_kind(eng, st, args, kw, origin):
    from pyvc import pysem as S

    return [(st, VInt(KIND(S.to_int_term(args[0]))))]


ancestor_kind.__pyvc_symbolic__ = _sym_kind


def inv_no_loop_or_function_so_far(k, n):
    return all(ancestor_kind(j) != 1 and ancestor_kind(j) != 2 and ancestor_kind(j) != 3 for j in range(k))


def post_loop_inside_the_function_is_returned(node, n, result):
    """result = (is_node, index of the returned ancestor or -1)"""
    is_node, idx = result
    encl = any((ancestor_kind(j) == 2 or ancestor_kind(j) == 3) and all(ancestor_kind(i) != 1 for i in range(j)) for j in range(n))
    if encl:
        return (not is_node) and 0 <= idx and idx < n and (ancestor_kind(idx) == 2 or ancestor_kind(idx) == 3) and all(ancestor_kind(i) != 1 for i in range(idx))
    return is_node


def loop_ancestor_contract():
    f = X.find_function(X.module_ast("utils.py"), "get_loop_ancestor")
    fn = "utils.get_loop_ancestor"

    def mk_node(st, pname):
        n = fresh("n_ancestors", INT)
        st.assume(n >= 0)
        st.ghost["n"] = n
        return VOpq("astnode", z3.IntVal(-1))

    def mk_n(st, pname):
        return VInt(st.ghost["n"])

    def node_attr(eng, st, obj, name, origin):
        if name == "node_ancestors":
            def run(e, s, a, k, o):
                n = s.ghost["n"]
                sl = SymList(n, lambda i: VOpq("astnode", i), "ancestors")
                return [(s, VList(s.alloc({"__sym__": sl})))]

            return [(st, VFun("builtin", fn=run, name="node_ancestors"))]
        raise Unsupported(f"node.{name}")

    def isinst(eng, st, v, cls):
        k = KIND(v.t)
        if cls == "FunctionDef":
            return k == 1
        if cls == "For":
            return k == 2
        if cls == "While":
            return k == 3
        raise Unsupported(f"isinstance(node, {cls})")

    w = {"nodes": VMod("nodes", {"FunctionDef": VType("FunctionDef"), "For": VType("For"), "While": VType("While")}),
         "__opqattr__:astnode": node_attr, "__isinstance__:astnode": isinst}

    def view(eng, st, v):
        if not (isinstance(v, VOpq) and v.tag == "astnode"):
            raise Unsupported("get_loop_ancestor returned something that is not a node")
        return VTuple([VBool(v.t == -1), VInt(v.t)])

    def setup(eng, st, args):
        eng.uf_patterns = True
        for q in ():
            pass

    def axioms(eng):
        j = z3.Int("j")
        eng.axiom(z3.ForAll([j], z3.And(KIND(j) >= 0, KIND(j) <= 3), patterns=[KIND(j)]))

    def search(clause):
        """native: the real helper on astroid trees of small programs (nested ifs / loops / functions)"""
        import astroid
        from astroid import nodes as N

        from stationeers_pytrapic.utils import get_loop_ancestor

        srcs = ["def f():\n    c = 0\n    while True:\n        if c > 1:\n            c = c + 1\n        x = 2\n",
                "def f():\n    for i in range(3):\n        if i:\n            if i > 1:\n                y = i\n",
                "for i in range(3):\n    while i:\n        z = 1\n", "x = 1\n", "def g():\n    v = 1\n    return v\n",
                "def f():\n    for i in range(2):\n        def h():\n            q = 1\n"]
        for s_ in srcs:
            tree = astroid.parse(s_)
            for node in tree.nodes_of_class((N.AssignName, N.Name)):
                chain = list(node.node_ancestors())
                want = node
                for a in chain:
                    if isinstance(a, N.FunctionDef):
                        break
                    if isinstance(a, (N.For, N.While)):
                        want = None  # some enclosing loop inside the function
                        break
                got = get_loop_ancestor(node)
                ok = (got is node) if want is node else (isinstance(got, (N.For, N.While)) and got in chain)
                if not ok:
                    return {"source": s_, "node": node.as_string(), "line": node.lineno}, f"returned {type(got).__name__} at line {got.lineno}"
        return None

    spec = LoopSpec([inv_no_loop_or_function_so_far], ["ghost:n"], name="ancestors")
    c = Contract(name=fn, fun=lambda eng: X.vfun(f, fn), params=[("node", [KCustom("node with any chain of ancestors", mk_node, lambda m, v: None)]), ("n", [KCustom("ghost: number of ancestors", mk_n, lambda m, v: None)])],
                 ghost=["n"], post={"an_enclosing_loop_of_the_function_is_returned_else_the_node": post_loop_inside_the_function_is_returned},
                 raises={}, world=w, loop_specs={f"{fn}@for[par]": spec}, setup=setup, axioms=axioms, result_view=view, search=search, timeout=60.0,
                 describe=dict(X.describe(f, "utils.py"), track="U: loop over a ghost ancestor chain of any length, cut by an invariant",
                               extraction_drops=["astroid node classes are three symbolic kinds (function definition / loop / other)"]))
    c.feas_timeout_ms = 500
    return c
