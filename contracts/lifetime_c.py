"""C04: utils.get_loop_ancestor under contract (the helper that widens a variable's lifetime to an enclosing loop).

The ancestors of the node are a ghost sequence of any length; each ancestor has a symbolic class (function definition, for loop,
while loop, anything else).  Proved for every such chain: if a loop encloses the node inside its function, the result is one of those
loops (so the lifetime built from the result covers the whole loop); otherwise the result is the node itself.  The loop
over the ancestors is cut by an invariant.

Not claimed here: that the OUTERMOST enclosing loop is returned - the code returns the innermost one, which is the recorded
known finding C04-nested-loop-lifetime (witness program replayed on every run)."""
from __future__ import annotations

import z3

from pyvc import extract as X
from pyvc.contract import Contract, KCustom
from pyvc.loops import LoopSpec, SymList
from pyvc.state import fresh
from pyvc.values import *

INT = z3.IntSort()
KIND = z3.Function("ancestor_kind", INT, INT)   # 0 other, 1 FunctionDef, 2 For, 3 While


def ancestor_kind(i):
    raise NotImplementedError("ghost function")


def _sym_kind(eng, st, args, kw, origin):
    from pyvc import pysem as S

    return [(st, VInt(KIND(S.to_int_term(args[0]))))]


ancestor_kind.__pyvc_symbolic__ = _sym_kind


def inv_no_loop_or_function_so_far(k, n):
    return all(ancestor_kind(j) != 1 and ancestor_kind(j) != 2 and ancestor_kind(j) != 3 for j in range(k))


def post_loop_inside_the_function_is_returned(node, n, result):
    """result = (is_node, index of the returned ancestor or -1)"""
    is_node, idx = result
    encl = any((ancestor_kind(j) == 2 or ancestor_kind(j) == 3) and all(ancestor_kind(i) != 1 for i in range(j)) for j in range(n))
    if encl:
        return (not is_node) and 0 <= idx and idx < n and (ancestor_kind(idx) == 2 or ancestor_kind(idx) == 3) and all(ancestor_kind(i) != 1 for i in range(idx))
    return is_node


def loop_ancestor_contract():
    f = X.find_function(X.module_ast("utils.py"), "get_loop_ancestor")
    fn = "utils.get_loop_ancestor"

    def mk_node(st, pname):
        n = fresh("n_ancestors", INT)
        st.assume(n >= 0)
        st.ghost["n"] = n
        return VOpq("astnode", z3.IntVal(-1))

    def mk_n(st, pname):
        return VInt(st.ghost["n"])

    def node_attr(eng, st, obj, name, origin):
        if name == "node_ancestors":
            def run(e, s, a, k, o):
                n = s.ghost["n"]
                sl = SymList(n, lambda i: VOpq("astnode", i), "ancestors")
                return [(s, VList(s.alloc({"__sym__": sl})))]

            return [(st, VFun("builtin", fn=run, name="node_ancestors"))]
        raise Unsupported(f"node.{name}")

    def isinst(eng, st, v, cls):
        k = KIND(v.t)
        if cls == "FunctionDef":
            return k == 1
        if cls == "For":
            return k == 2
        if cls == "While":
            return k == 3
        raise Unsupported(f"isinstance(node, {cls})")

    w = {"nodes": VMod("nodes", {"FunctionDef": VType("FunctionDef"), "For": VType("For"), "While": VType("While")}),
         "__opqattr__:astnode": node_attr, "__isinstance__:astnode": isinst}

    def view(eng, st, v):
        if not (isinstance(v, VOpq) and v.tag == "astnode"):
            raise Unsupported("get_loop_ancestor returned something that is not a node")
        return VTuple([VBool(v.t == -1), VInt(v.t)])

    def setup(eng, st, args):
        eng.uf_patterns = True
        for q in ():
            pass

    def axioms(eng):
        j = z3.Int("j")
        eng.axiom(z3.ForAll([j], z3.And(KIND(j) >= 0, KIND(j) <= 3), patterns=[KIND(j)]))

    def search(clause):
        """native: the real helper on astroid trees of small programs (nested ifs / loops / functions)"""
        import astroid
        from astroid import nodes as N

        from stationeers_pytrapic.utils import get_loop_ancestor

        srcs = ["def f():\n    c = 0\n    while True:\n        if c > 1:\n            c = c + 1\n        x = 2\n",
                "def f():\n    for i in range(3):\n        if i:\n            if i > 1:\n                y = i\n",
                "for i in range(3):\n    while i:\n        z = 1\n", "x = 1\n", "def g():\n    v = 1\n    return v\n",
                "def f():\n    for i in range(2):\n        def h():\n            q = 1\n"]
        for s_ in srcs:
            tree = astroid.parse(s_)
            for node in tree.nodes_of_class((N.AssignName, N.Name)):
                chain = list(node.node_ancestors())
                want = node
                for a in chain:
                    if isinstance(a, N.FunctionDef):
                        break
                    if isinstance(a, (N.For, N.While)):
                        want = None  # some enclosing loop inside the function
                        break
                got = get_loop_ancestor(node)
                ok = (got is node) if want is node else (isinstance(got, (N.For, N.While)) and got in chain)
                if not ok:
                    return {"source": s_, "node": node.as_string(), "line": node.lineno}, f"returned {type(got).__name__} at line {got.lineno}"
        return None

    spec = LoopSpec([inv_no_loop_or_function_so_far], ["ghost:n"], name="ancestors")
    c = Contract(name=fn, fun=lambda eng: X.vfun(f, fn), params=[("node", [KCustom("node with any chain of ancestors", mk_node, lambda m, v: None)]), ("n", [KCustom("ghost: number of ancestors", mk_n, lambda m, v: None)])],
                 ghost=["n"], post={"an_enclosing_loop_of_the_function_is_returned_else_the_node": post_loop_inside_the_function_is_returned},
                 raises={}, world=w, loop_specs={f"{fn}@for[par]": spec}, setup=setup, axioms=axioms, result_view=view, search=search, timeout=60.0,
                 describe=dict(X.describe(f, "utils.py"), track="U: loop over a ghost ancestor chain of any length, cut by an invariant",
                               extraction_drops=["astroid node classes are three symbolic kinds (function definition / loop / other)"]))
    c.feas_timeout_ms = 500
    return c


# ------------------------------------------------------------------------------------------- IC10Register.lifetime
# The branch for temporaries (`_is_intermediate`): the lifetime is the line range of the statement the temporary is computed
# in.  The parent chain of the writing node is a ghost sequence of any length; the `while` loop climbing it is cut by an
# invariant and proved to terminate (variant: distance to the chain's end, where a statement is reached at the latest).
IS_STMT = z3.Function("node_is_statement", INT, z3.BoolSort())
LINENO = z3.Function("node_lineno", INT, INT)
END_LINENO = z3.Function("node_end_lineno", INT, INT)


def node_is_statement(i):
    raise NotImplementedError("ghost function")


def _sym_is_stmt(eng, st, args, kw, origin):
    from pyvc import pysem as S

    return [(st, VBool(IS_STMT(S.to_int_term(args[0]))))]


node_is_statement.__pyvc_symbolic__ = _sym_is_stmt


def chain_index(node):
    raise NotImplementedError("ghost function")


def _sym_chain_index(eng, st, args, kw, origin):
    return [(st, VInt(args[0].t))]


chain_index.__pyvc_symbolic__ = _sym_chain_index


def inv_climbing(k, node, n):
    return 0 <= chain_index(node) and chain_index(node) <= n and all(not node_is_statement(j) for j in range(chain_index(node)))


def climb_variant(k, node, n):
    return n - chain_index(node)


def lifetime_contract():
    from pyvc.builtins_model import class_from_source

    tree = X.module_ast("types.py")
    ci = class_from_source(tree, "IC10Register")
    fprop = ci.properties["lifetime"]
    fn = "IC10Register.lifetime"

    def mk_sym(st, pname):
        n = fresh("chain_length", INT)
        st.assume(n >= 0)
        st.assume(IS_STMT(n))          # the chain of parents reaches a statement (module-level code consists of statements)
        st.ghost["n"] = n
        first = VOpq("chain", z3.IntVal(0))
        return st.new_obj("IC10Register", {"name": VC("t"), "scope": VC(""), "code_expr": VC("__register.1_"), "_lifetime": VC(None), "_color": VC(-1),
                                           "_is_intermediate": VC(True), "nodes_reading": st.new_list([]), "nodes_writing": st.new_list([first])})

    def chain_attr(eng, st, obj, name, origin):
        if name == "is_statement":
            return [(st, VBool(IS_STMT(obj.t)))]
        if name == "parent":
            return [(st, VOpq("chain", obj.t + 1))]
        if name == "lineno":
            return [(st, VInt(LINENO(obj.t)))]
        if name == "end_lineno":
            return [(st, VInt(END_LINENO(obj.t)))]
        raise Unsupported(f"node.{name}")

    def setup(eng, st, args):
        eng.uf_patterns = True

    class _Idx:
        pass

    def post(self, result):
        lo, hi, m_ok = result
        return m_ok

    def view(eng, st, v):
        from pyvc.loops import SymRange

        if isinstance(v, VC) and isinstance(v.py, range):
            lo, hi = z3.IntVal(v.py.start), z3.IntVal(v.py.stop)
        elif isinstance(v, SymRange):
            lo, hi = v.lo, v.hi
        else:
            raise Unsupported(f"lifetime returned {v!r}")
        # m = the first statement on the chain: the result must be its line range
        m = z3.Int("m_first_statement")
        n = st.ghost["n"]
        j = z3.Int("j_before")
        first_stmt = z3.And(m >= 0, m <= n, IS_STMT(m), z3.ForAll([j], z3.Implies(z3.And(j >= 0, j < m), z3.Not(IS_STMT(j))), patterns=[IS_STMT(j)]))
        ok = z3.ForAll([m], z3.Implies(first_stmt, z3.And(lo == LINENO(m), hi == END_LINENO(m) + 1)), patterns=[IS_STMT(m)])
        return VTuple([VInt(lo), VInt(hi), VBool(ok)])

    # the loop variable is an opaque chain element: its index is the ghost value the invariant talks about
    def lookup_index(eng, st):
        node = eng.lookup(st, "node")
        return node.t

    def search(clause):
        """native: every temporary of a few real compilations (loop headers with computed bounds, nested expressions)"""
        from stationeers_pytrapic import generate_code as G
        from stationeers_pytrapic.compiler import CompileOptions, compile_code

        h = "from stationeers_pytrapic.symbols import *\n"
        srcs = [h + "n = d0.Setting\nfor i in range(floor(n / 2) + 1):\n    db.Setting = i * 2 + n\n    db.On = (i + 1) * (n - 1)\n",
                h + "x = d0.On\nwhile (x * 2 + 1) < (d1.Setting - 3):\n    x = x + (d0.Setting * 2)\n    db.Setting = x\n",
                h + "def f(a):\n    for k in range(ceil(a) + 2):\n        db.On = (k + a) * (k - a)\n    return a + 1\ndb.Setting = f(d0.Setting)\ndb.Mode = f(d0.On)\n"]
        found = []
        real = G.assign_registers

        def wrapper(data, code):
            for scope, table in data.symbols.items():
                for sym in table.values():
                    if getattr(sym, "_is_intermediate", False) and sym.nodes_writing:
                        node = sym.nodes_writing[0]
                        while not node.is_statement:
                            node = node.parent
                        want = range(node.lineno, node.end_lineno + 1)
                        got = sym.lifetime
                        if (got.start, got.stop) != (want.start, want.stop):
                            found.append((scope, sym.name, (got.start, got.stop), (want.start, want.stop), node.as_string()[:60]))
            return real(data, code)

        G.assign_registers = wrapper
        try:
            for s_ in srcs:
                compile_code(s_, CompileOptions(append_version=False))
                if found:
                    sc, nm, got, want, stmt = found[0]
                    return {"sources": s_, "options": {"append_version": False}}, f"temporary {nm} of scope {sc!r} has lifetime {got}, its statement '{stmt}' spans {want}"
        finally:
            G.assign_registers = real
        return None

    spec = LoopSpec([inv_climbing], ["node", "ghost:n"], name="climb", variant=climb_variant)
    src = "def lifetime_of(sym):\n    return sym.lifetime\n"
    import ast as _ast

    c = Contract(name="types.IC10Register.lifetime{intermediate}", fun=lambda eng: X.vfun(_ast.parse(src).body[0], "harness:IC10Register.lifetime"),
                 params=[("self", [KCustom("temporary written at a node with any chain of parents", mk_sym, lambda m, v: None)])],
                 post={"lifetime_is_the_line_range_of_the_enclosing_statement": post}, raises={}, world={"__opqattr__:chain": chain_attr, "sys": VMod("sys", {"maxsize": VC(2**63 - 1)}),
                                                                                                           "nodes": VMod("nodes", {"Module": VType("Module")})},
                 classes={"IC10Register": ci}, loop_specs={f"{fn}@while[not node.is_statement]": spec}, setup=setup, result_view=view, search=search, timeout=60.0,
                 describe=dict(X.describe(fprop, "types.py"), track="U: while loop over a ghost parent chain (invariant + variant); only the branch for temporaries",
                               extraction_drops=["the branches for named variables (module-level: whole program; otherwise min / max over the widened nodes) are not under this contract"]))
    c.feas_timeout_ms = 500
    c.ghost_index_sync = True
    return c
