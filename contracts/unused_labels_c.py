"""C05: generate_code.remove_unused_labels under contract, for texts of EVERY length.

The three loops of the real function are cut out on every run and executed symbolically with the statement-subset executor
of contracts/labels_c.py (same value model: lines / token lists are values of an uninterpreted sort, every str / list
operation is an uninterpreted function named after the operation and its constant arguments, sets are membership arrays).

Carried to the exit (from the property: every control transfer resolves to an existing location; labelled mode):
  * referenced_labels_survive: if a line is removed, NO line of the text has the removed name among its tokens
    (`name in line.split()` - the function's own notion of a reference, which is the token-wise one of the property)
  * only_label_lines_are_removed: a removed line is `name:` (ends in ':' and the text before it is a collected label name),
    and that name is the name of some single-token definition line
  * kept_lines_preserved_in_order: the result is exactly the non-removed lines, in order.
Loop 1 (collect definitions) is proved with a two-sided invariant, loop 2 (collect references) with the one direction the
property needs (that only referenced names are in used_labels is a matter of output size, not of the property) - invariants (ghost witness arrays: the
line index that caused an `add`); the inner `for label in labels: if label in tokens: used_labels.add(label)` is summarised by
the for-each rule of labels_c.run (stated there).  Loop 3 is the filter.  `labels - used_labels` is set difference."""
from __future__ import annotations

import ast
import time

import z3

from contracts import labels_c as LC
from contracts.labels_c import BOOL, INT, L, T, St, ev, run, t_fun, t_pred, truth, uf
from pyvc import extract as X
from pyvc.report import DISCHARGED, UNDECIDED, VIOLATED, Ob
from pyvc.smt import check_valid
from pyvc.values import Unsupported

REL = "generate_code.py"
TARGET = "generate_code.remove_unused_labels"
K3 = z3.Function("kept_before_unused", INT, INT)


# ------------------------------------------------------------------------------------ the property's reading (spec side)
def toks(j):
    return t_fun("m_split_()")(L(j))


def isdef(j):  # a line that consists of the single token `name:`
    return z3.And(uf("len", T, INT)(toks(j)) == 1, t_pred("m_endswith_(':',)")(t_fun("idx_0")(toks(j))))


def dlabel(j):
    return t_fun("slice_None_-1")(t_fun("idx_0")(toks(j)))


def refers(i, s):  # line i has s among its tokens
    return uf("contains", T, T, BOOL)(toks(i), s)


def lname(j):  # the text before the last character of line j
    return t_fun("slice_None_-1")(L(j))


def block():
    f = X.find_function(X.module_ast(REL), "remove_unused_labels")
    loops = [s for s in f.body if isinstance(s, ast.For)]
    if len(loops) != 3 or any(ast.unparse(l.iter) != "lines" or not isinstance(l.target, ast.Name) or l.orelse for l in loops):
        raise Unsupported(f"sidecar out of date: expected three top-level `for .. in lines:` loops in remove_unused_labels (found {len(loops)})")
    simple = {}
    for s in f.body:
        if isinstance(s, ast.Assign) and len(s.targets) == 1 and isinstance(s.targets[0], ast.Name):
            if s.targets[0].id in simple:
                raise Unsupported(f"sidecar out of date: {s.targets[0].id} assigned twice at the top level")
            simple[s.targets[0].id] = (ast.unparse(s.value), f.body.index(s))
    want = {"lines": "code.splitlines()", "labels": "set()", "used_labels": "set()", "unused_labels": "labels - used_labels", "result": "[]"}
    got = {k: v[0] for k, v in simple.items()}
    if got != want:
        raise Unsupported(f"sidecar out of date: top-level assignments are {got}")
    order = [simple["lines"][1], simple["labels"][1], simple["used_labels"][1], f.body.index(loops[0]), f.body.index(loops[1]), simple["unused_labels"][1], simple["result"][1], f.body.index(loops[2])]
    if order != sorted(order) or not isinstance(f.body[-1], ast.Return) or ast.unparse(f.body[-1].value) != "'\\n'.join(result)":
        raise Unsupported("sidecar out of date: statement order / return value of remove_unused_labels changed")
    others = [s for s in f.body if not isinstance(s, (ast.For, ast.Assign, ast.Return)) and not (isinstance(s, ast.Expr) and isinstance(s.value, ast.Constant))]
    if others:
        raise Unsupported(f"sidecar out of date: unexpected statement at line {others[0].lineno}")
    # frame of each loop: which of the function's variables it may write
    allowed = [{"labels"}, {"used_labels"}, {"result"}]
    for lp, ok in zip(loops, allowed):
        for n in ast.walk(lp):
            w = None
            if isinstance(n, ast.Name) and isinstance(n.ctx, ast.Store):
                w = n.id
            if isinstance(n, ast.Call) and isinstance(n.func, ast.Attribute) and isinstance(n.func.value, ast.Name) and n.func.attr in ("add", "append", "remove", "discard", "clear", "pop", "update", "extend", "insert"):
                w = n.func.value.id
            if w in {"lines", "labels", "used_labels", "unused_labels", "result", "code"} - ok:
                raise Unsupported(f"sidecar out of date: loop at line {lp.lineno} writes {w}")
    return f, loops


def aset(tag):
    return ("aset", z3.Const(f"{tag}_mem", z3.ArraySort(T, BOOL)), z3.Const(f"{tag}_wit", z3.ArraySort(T, INT)))


EMPTY = ("aset", z3.K(T, z3.BoolVal(False)), z3.K(T, z3.IntVal(0)))


def q(vs, body, pats):
    return z3.ForAll(vs, body, patterns=pats)


def inv1(k, env):
    _, mem, wit = env["labels"]
    j, s = z3.Int("j!1"), z3.Const("s!1", T)
    return {
        "every_definition_is_collected": q([j], z3.Implies(z3.And(0 <= j, j < k, isdef(j)), z3.Select(mem, dlabel(j))), [L(j)]),
        "collected_names_have_a_definition": q([s], z3.Implies(z3.Select(mem, s), z3.And(0 <= z3.Select(wit, s), z3.Select(wit, s) < k, isdef(z3.Select(wit, s)), dlabel(z3.Select(wit, s)) == s)), [z3.Select(mem, s)]),
    }


def inv2(k, env):
    _, lmem, _ = env["labels"]
    _, mem, wit = env["used_labels"]
    j, s = z3.Int("j!2"), z3.Const("s!2", T)
    return {
        "every_reference_is_collected": q([j, s], z3.Implies(z3.And(0 <= j, j < k, z3.Select(lmem, s), refers(j, s)), z3.Select(mem, s)), [refers(j, s)]),
    }


def removed(j, env):
    return z3.And(t_pred("m_endswith_(':',)")(L(j)), z3.Select(env["unused_labels"][1], lname(j)))


def inv3(k, env):
    _, n_res, a_res = env["result"]
    j = z3.Int("j!3")
    return {
        "len_result_is_kept_count": z3.And(n_res == K3(k), K3(k) >= 0),
        "kept_lines_before_are_below_the_count": q([j], z3.Implies(z3.And(0 <= j, j < k, z3.Not(removed(j, env))), z3.And(0 <= K3(j), K3(j) < K3(k))), [K3(j)]),
        "kept_lines_preserved_in_order": q([j], z3.Implies(z3.And(0 <= j, j < k, z3.Not(removed(j, env))), z3.Select(a_res, K3(j)) == L(j)), [K3(j)]),
    }


def _ob(obs, oid, results, t0, extra=None):
    bad = [w for r, w in results if r != "valid"]
    ob = Ob(oid, DISCHARGED if not bad else UNDECIDED, backend="z3" if not bad else "z3", time_s=round(time.time() - t0, 3), target=TARGET, detail=dict(extra or {}))
    if bad:
        ob.detail["reason"] = "solver: " + str(bad[0])
    obs.append(ob)


def _valid(pc, goal, timeout):
    r, _, why = check_valid(pc, goal, timeout, want_model=False)
    return (r, why if r != "invalid" else "NOPROOF z3: counter-model over the uninterpreted operations")


def prove_loop(obs, tag, loop, inv, env_h, init_env, base, k, n, timeout, extra_hyp=(), need_ghost=True):
    hyp = list(base) + [0 <= k, k < n] + list(inv(k, env_h).values()) + list(extra_hyp)
    r, _, _ = check_valid(hyp, z3.BoolVal(False), 5.0, second_opinion=False)
    obs.append(Ob(f"{TARGET}#step_hypotheses_consistent[{tag}.guard]", DISCHARGED if r != "valid" else UNDECIDED, target=TARGET,
                  detail={"note": "false is not derivable from invariant + loop condition"} if r != "valid" else {"reason": "the loop invariant is contradictory (vacuous proof)"}))
    for name, g in inv(z3.IntVal(0), init_env).items():
        t0 = time.time()
        _ob(obs, f"{TARGET}#{name}[{tag}.init]", [_valid(list(base), g, timeout)], t0)
    st = St(dict(env_h, **{loop.target.id: ("text", L(k))}), hyp)
    paths = run(st, list(loop.body), k)
    if need_ghost and not any("__ghost_fired__" in p.env for p in paths):
        raise Unsupported(f"sidecar out of date: no path of the loop at line {loop.lineno} extends its set")
    feas = [p for p in paths if check_valid(p.pc, z3.BoolVal(False), 5.0, second_opinion=False)[0] != "valid"]
    for name in inv(k, env_h):
        t0 = time.time()
        _ob(obs, f"{TARGET}#{name}[{tag}.step]", [_valid(p.pc, inv(k + 1, p.env)[name], timeout) for p in feas], t0, {"paths": len(feas)})
    return len(feas)


def obligations(timeout=20.0):
    f, loops = block()
    obs = []
    n, k = z3.Int("n_lines"), z3.Int("k")
    base = [n >= 0, K3(0) == 0]
    fixed = {"lines": ("opaque",)}
    # ---- loop 1: labels
    env1 = dict(fixed, labels=aset("labels_h"))
    p1 = prove_loop(obs, "loop1", loops[0], inv1, env1, dict(fixed, labels=EMPTY), base, k, n, timeout)
    # ---- loop 2: used_labels (labels fixed, with loop 1's invariant at exit)
    labels_x = aset("labels_x")
    facts1 = list(inv1(n, {"labels": labels_x}).values())
    env2 = dict(fixed, labels=labels_x, used_labels=aset("used_h"))
    p2 = prove_loop(obs, "loop2", loops[1], inv2, env2, dict(fixed, labels=labels_x, used_labels=EMPTY), base + facts1, k, n, timeout)
    # ---- unused_labels = labels - used_labels, by the real statement
    used_x = aset("used_x")
    facts2 = list(inv2(n, {"labels": labels_x, "used_labels": used_x}).values())
    st = St(dict(fixed, labels=labels_x, used_labels=used_x), base + facts1 + facts2)
    assign = [s for s in f.body if isinstance(s, ast.Assign) and s.targets[0].id == "unused_labels"][0]
    (st,) = run(st, [assign], n)
    if st.env["unused_labels"][0] != "aset":
        raise Unsupported("unused_labels is not a set")
    # ---- loop 3: the filter
    res_h = ("list", z3.Int("result_len!h"), z3.Const("result!h", z3.ArraySort(INT, T)))
    env3 = dict(st.env, result=res_h)
    env3i = dict(st.env, result=("list", z3.IntVal(0), z3.K(INT, z3.Const("any_text", T))))
    unfold = K3(k + 1) == K3(k) + z3.If(removed(k, env3), 0, 1)
    p3 = prove_loop(obs, "loop3", loops[2], inv3, env3, env3i, st.pc, k, n, timeout, extra_hyp=[unfold], need_ghost=False)
    # ---- exit
    res_x = ("list", z3.Int("result_len!x"), z3.Const("result!x", z3.ArraySort(INT, T)))
    envx = dict(st.env, result=res_x)
    pcx = st.pc + list(inv3(n, envx).values())
    i, j = z3.Int("i!p"), z3.Int("j!p")
    _, lmem, lwit = labels_x
    posts = {
        "referenced_labels_survive": z3.ForAll([i, j], z3.Implies(z3.And(0 <= j, j < n, 0 <= i, i < n, removed(j, envx)), z3.Not(refers(i, lname(j))))),
        "only_label_lines_are_removed": z3.ForAll([j], z3.Implies(z3.And(0 <= j, j < n, removed(j, envx)), z3.And(t_pred("m_endswith_(':',)")(L(j)), z3.Select(lmem, lname(j)), isdef(z3.Select(lwit, lname(j))), dlabel(z3.Select(lwit, lname(j))) == lname(j),
                                                                                                            0 <= z3.Select(lwit, lname(j)), z3.Select(lwit, lname(j)) < n))),
        "kept_lines_preserved_in_order": z3.And(res_x[1] == K3(n), z3.ForAll([j], z3.Implies(z3.And(0 <= j, j < n, z3.Not(removed(j, envx))), z3.And(0 <= K3(j), K3(j) < res_x[1], z3.Select(res_x[2], K3(j)) == L(j))))),
    }
    for name, g in posts.items():
        t0 = time.time()
        _ob(obs, f"{TARGET}#{name}[exit]", [_valid(pcx, g, timeout)], t0)
    info = dict(file=f"src/stationeers_pytrapic/{REL}", lines=[f.lineno, f.end_lineno], sha256_of_extracted_source=X.sha(f), paths=p1 + p2 + p3,
                track="U (three loop invariants: 2 + 2 + 3 clauses; ghost witness arrays; for-each rule for the inner loop over a set; set difference axiomatised)",
                extraction_drops=["type annotations", "the final '\\n'.join(result) (the result is read as the list of lines)"])
    return obs, info


# ------------------------------------------------------------------------------------ native search (replay side)
def native_search(clause):
    """Run the REAL remove_unused_labels on small texts: no removed label name may occur as a token of any line, removed lines
    must be unreferenced single-token label definitions, all other lines must survive in order."""
    import importlib
    import itertools

    G = importlib.import_module("stationeers_pytrapic.generate_code")
    atoms = ["a:", "b:", "j a", "jal b", "beq r0 1 a", "move r0 1", "a: # c", "  b:", "j a # x", "ab:", "j ab", "a.b:", "jal a.b", "yield"]
    for r in (1, 2, 3):
        for combo in itertools.product(atoms, repeat=r):
            text = "\n".join(combo)
            try:
                out = G.remove_unused_labels(text)
                got = out.split("\n") if out else []
            except Exception as e:
                return {"code": text}, f"remove_unused_labels raised {type(e).__name__}: {e}"
            src = text.split("\n")
            toks = {t for l in src for t in l.split()}
            # expected: drop exactly-`name:` lines (as written by the emitter: no indentation) whose name no line has as a token
            kept_ok = True
            gi = 0
            for l in src:
                is_removable = len(l.split()) == 1 and l.split()[0].endswith(":") and l.split()[0][:-1] not in toks
                if gi < len(got) and got[gi] == l:
                    gi += 1
                elif not is_removable:
                    kept_ok = False
                    break
            if not kept_ok or gi != len(got):
                return {"code": text}, {"remove_unused_labels_returned": "\n".join(got), "reason": "a line that is not an unreferenced label definition is missing from the result (or extra text appeared)"}
    return None


def run_into(report, timeout=20.0):
    t0 = time.time()
    try:
        obs, info = obligations(timeout)
    except Unsupported as e:
        ob = Ob(f"{TARGET}#subset[extraction]", UNDECIDED, target=TARGET, detail={"reason": f"outside the verified subset: {e}"})
        found = native_search("subset")
        if found:
            ob = Ob(f"{TARGET}#referenced_labels_survive[exit]", VIOLATED, target=TARGET, witness=found[0], replayed=True,
                    detail={"observed": found[1], "reason": f"outside the verified subset: {e}", "witness_source": "native search of the contract on the real function"})
        report.add(ob)
        return
    for ob in obs:
        if ob.verdict == UNDECIDED and str(ob.detail.get("reason", "")).startswith("solver: NOPROOF"):
            found = native_search(ob.id)
            if found:
                ob.verdict, ob.replayed, ob.witness = VIOLATED, True, found[0]
                ob.detail["observed"] = found[1]
                ob.detail["witness_source"] = "native search of the contract on the real function (quantified VC: the solver gives no model)"
        report.add(ob)
    report.function(target=TARGET, wall_s=round(time.time() - t0, 2), **info)
