"""Sidecar contract for mod_daemon.process_input (C14): exception flow and effect count.

Request contents are arbitrary: the decoded message is an opaque value on which every operation may raise any
Exception (or return another opaque value).  What is proved, for every path through try/except/except/finally
including the `return`s inside `try`: no exception escapes, and exactly one line is printed to the saved real
stdout for a non-empty input line, none for an empty one."""
from __future__ import annotations

import z3

from pyvc import extract as X
from pyvc import pysem as S
from pyvc.contract import Contract, KConst, KCustom, KStr
from pyvc.pysem import exc
from pyvc.state import Raise, fresh
from pyvc.values import *

ANY = z3.DeclareSort("Opq_any")
F_STR_OF_ANY = z3.Function("str_of_any", ANY, z3.StringSort())

ASSUMED = [
    "compile_code(modules, options): either raises an Exception (caught here) or returns a dict whose values are str/int/None or such a dict (JSON-serialisable); established by the C10 contract of Compiler.compile",
    "json.dumps of a dict of str / int / None / nested such dicts does not raise and, with the default ensure_ascii=True, returns pure ASCII text",
    "str.encode('utf-8') of ASCII text does not raise (of arbitrary text: UnicodeEncodeError for lone surrogates)",
    "base64.b64encode(bytes).decode('ascii') does not raise and contains no newline",
    "print(text, flush=True, file=<pipe>) does not raise (a closed pipe is outside the property's quantifier: the reader is alive)",
    "traceback.format_exc(), time.time(), str() / f-string formatting of JSON values do not raise",
    "main(): sys.stdin.readline() returns the next line (non-empty text) or '' at end of input and does not raise; the loop contract proves partial correctness AND termination (variant: lines not yet read) for every finite input; the `if __name__ == '__main__'` wrapper (signal handlers, asyncio.run) is not under contract (covered by the real-process histories only)",
    "log()/error() are no-ops that do not raise while ENABLE_LOGGING is False (checked: the module assigns ENABLE_LOGGING = False last)",
]


def any_value(st, prefix="v"):
    return VOpq("opt:any", fresh(prefix, ANY))


def may_raise(eng, st, origin, cls="Exception"):
    """-> (state where the operation raised an exception of unknown class, Raise)"""
    s = st.fork()
    e = VExc(cls, (), origin=origin)
    e.inexact = True
    return s, Raise(e)


def op_on_any(eng, st, origin, result=None):
    """an operation on an arbitrary value: raises something, or yields another arbitrary value"""
    s0, r0 = may_raise(eng, st, origin)
    s1 = st.fork()
    return [(s0, r0), (s1, result if result is not None else any_value(s1))]


def any_attr(eng, st, obj, name, origin):
    # attribute access may raise AttributeError; otherwise a callable whose call may raise anything
    def method(e, s, a, k, o):
        return op_on_any(e, s, o)

    s0, r0 = may_raise(eng, st, origin, "AttributeError")
    r0.exc.inexact = False
    s1 = st.fork()
    return [(s0, r0), (s1, VFun("builtin", fn=method, name=f"any.{name}"))]


def h_b64decode(eng, st, args, kw, origin):
    s0 = st.fork()
    return [(s0, exc("binascii.Error", "", origin)), (st.fork(), VOpq("rawbytes", fresh("raw", ANY)))]


def rawbytes_attr(eng, st, obj, name, origin):
    if name == "decode":
        def dec(e, s, a, k, o):
            return [(s.fork(), exc("UnicodeDecodeError", "", o)), (s.fork(), VOpq("rawtext", fresh("txt", ANY)))]

        return [(st, VFun("builtin", fn=dec, name="bytes.decode"))]
    raise Unsupported(f"bytes.{name}")


def h_loads(eng, st, args, kw, origin):
    if not (isinstance(args[0], VOpq) and args[0].tag == "rawtext"):
        raise Unsupported("json.loads of something that is not the decoded request text")
    return [(st.fork(), exc("json.JSONDecodeError", "", origin)), (st.fork(), any_value(st, "msg"))]


def h_dumps(eng, st, args, kw, origin):
    ascii_out = True
    for k, v in kw.items():
        if k == "ensure_ascii" and isinstance(v, VC):
            ascii_out = bool(v.py)
        elif k in ("separators", "sort_keys", "indent"):
            pass
        else:
            raise Unsupported(f"json.dumps keyword {k}")
    v = args[0]
    if not (isinstance(v, VDict) or (isinstance(v, VOpq) and v.tag == "result")):
        raise Unsupported(f"json.dumps of {v!r}")
    eng.use("json.dumps(response) does not raise: responses are dicts of strings / compile results (assumed contract)")
    return [(st, VOpq("jsontext:ascii" if ascii_out else "jsontext:any", fresh("js", ANY)))]


def jsontext_attr(ascii_out):
    def h(eng, st, obj, name, origin):
        if name == "encode":
            def enc(e, s, a, k, o):
                ok = (s.fork(), VOpq("asciibytes", fresh("b", ANY)))
                if ascii_out:
                    return [ok]
                return [(s.fork(), exc("UnicodeEncodeError", "lone surrogate", o)), ok]

            return [(st, VFun("builtin", fn=enc, name="str.encode"))]
        raise Unsupported(f"str.{name}")

    return h


def h_b64encode(eng, st, args, kw, origin):
    if not (isinstance(args[0], VOpq) and args[0].tag == "asciibytes"):
        raise Unsupported("b64encode of something else than the encoded response")
    return [(st, VOpq("b64bytes", fresh("e", ANY)))]


def b64bytes_attr(eng, st, obj, name, origin):
    if name == "decode":
        return [(st, VFun("builtin", fn=lambda e, s, a, k, o: [(s, VOpq("b64text", fresh("t", ANY)))], name="bytes.decode"))]
    raise Unsupported(f"bytes.{name}")


def h_compile_code(eng, st, args, kw, origin):
    eng.use("callee contract compiler.compile_code: raises an Exception or returns a JSON-serialisable result dict (C10)")
    s0, r0 = may_raise(eng, st, origin)
    return [(s0, r0), (st.fork(), VOpq("result", fresh("res", ANY)))]


def result_attr(eng, st, obj, name, origin):
    if name == "get":
        # dict.get never raises; the value under 'error' is a dict (or the default)
        return [(st, VFun("builtin", fn=lambda e, s, a, k, o: [(s, VOpq("opt:sub", fresh("sub", ANY)))], name="dict.get"))]
    raise Unsupported(f"result.{name}")


def h_construct_options(eng, st, args, kw, origin):
    # CompileOptions(**mapping): TypeError for unknown / non-string keys or a non-mapping
    s0 = st.fork()
    return [(s0, exc("TypeError", "unexpected keyword", origin)), (st.fork(), VOpq("options", fresh("opt", ANY)))]


def h_list(eng, st, args, kw, origin):
    if args and isinstance(args[0], VOpq):
        return op_on_any(eng, st, origin)
    from pyvc.builtins_model import b_list

    return b_list(eng, st, args, kw, origin)


def contains_any(eng, st, container, item, origin):
    if isinstance(item, VOpq):
        b = fresh("in", z3.BoolSort())
        return [(st, b)]
    return None


def noop(eng, st, args, kw, origin):
    return [(st, VC(None))]


def daemon_world():
    w = {}
    w["__opqattr__:opt:any"] = any_attr
    w["__opqattr__:rawbytes"] = rawbytes_attr
    w["__opqattr__:jsontext:ascii"] = jsontext_attr(True)
    w["__opqattr__:jsontext:any"] = jsontext_attr(False)
    w["__opqattr__:b64bytes"] = b64bytes_attr
    w["__opqattr__:result"] = result_attr
    w["__opqattr__:opt:sub"] = result_attr
    w["__contains__"] = contains_any
    w["module:json"] = VMod("json", {"loads": VFun("builtin", fn=h_loads, name="json.loads"), "dumps": VFun("builtin", fn=h_dumps, name="json.dumps"),
                                     "JSONDecodeError": VType("json.JSONDecodeError")})
    w["json"] = w["module:json"]
    w["module:base64"] = VMod("base64", {"b64decode": VFun("builtin", fn=h_b64decode, name="b64decode"), "b64encode": VFun("builtin", fn=h_b64encode, name="b64encode")})
    w["base64"] = w["module:base64"]
    w["module:time"] = VMod("time", {"time": VFun("builtin", fn=lambda e, s, a, k, o: [(s, VFloat(fresh("t", F64)))], name="time.time")})
    w["time"] = w["module:time"]
    w["module:traceback"] = VMod("traceback", {"format_exc": VFun("builtin", fn=lambda e, s, a, k, o: [(s, VStr(fresh("tb", z3.StringSort())))], name="format_exc")})
    w["log"] = VFun("builtin", fn=noop, name="log")
    w["error"] = VFun("builtin", fn=noop, name="error")
    w["compile_code"] = VFun("builtin", fn=h_compile_code, name="compile_code")
    w["CompileOptions"] = VType("CompileOptions")
    w["__construct__:CompileOptions"] = h_construct_options
    w["list"] = VFun("builtin", fn=h_list, name="list")
    w["_stdout"] = VOpq("stdout", fresh("stdout", ANY))
    w["Exception"] = VType("Exception")
    return w


def view(eng, st, v):
    return VTuple([v, VC(st.ghost.get("print:stdout", 0)), VC(sum(n for k, n in st.ghost.items() if k.startswith("print:") and k != "print:stdout"))])


def post_one_line(line, result):
    return result[1] == (1 if line else 0)


def post_nothing_else_printed(line, result):
    return result[2] == 0


def logging_is_off():
    """the premise 'log()/error() are no-ops' : the last module-level assignment to ENABLE_LOGGING is the constant False"""
    import ast

    tree = X.module_ast("mod_daemon.py")
    last = None
    for n in tree.body:
        if isinstance(n, ast.Assign) and any(isinstance(t, ast.Name) and t.id == "ENABLE_LOGGING" for t in n.targets):
            last = n.value
    return isinstance(last, ast.Constant) and last.value is False


def native_process(line):
    import io

    from stationeers_pytrapic import mod_daemon as D

    buf = io.StringIO()
    old = D._stdout
    D._stdout = buf
    try:
        r = D.process_input(line)
    finally:
        D._stdout = old
    out = buf.getvalue()
    return (r, out.count("\n"), 0 if (out == "" or out.endswith("\n")) and "\n" not in out[:-1] else 1)


def search_process(clause):
    import base64
    import json

    enc = lambda o: base64.b64encode(json.dumps(o).encode()).decode()
    lines = ["", "x", "!!!!", "AAAA", enc([1, 2]), enc("str"), enc({"action": "compile"}), enc({"action": "nope"}), enc({"action": "\ud83d"}),
             enc({"action": "compile", "code": 5}), enc({"action": "compile", "code": {"": "x = 1"}, "options": {"bogus": 1}}),
             enc({"action": "compile", "code": {"": "x = 1"}, "options": {"\udc00pt": 1}}), enc({"action": "compile", "code": {"": "while True:\n    pass"}}),
             enc({"action": "compile", "code": {"": "db.Setting = '\ud83d'"}}), enc({"action": "compile", "code": "print(1)"}),
             base64.b64encode(b"\xff\xfe").decode(), enc({"action": "compile", "code": {"": "from stationeers_pytrapic.symbols import *\ndb.Setting = 1\n"}})]
    for line in lines:
        try:
            r = native_process(line)
        except Exception as e:
            if clause.startswith("exc.") or True:
                return {"line": line}, f"raised {type(e).__name__}: {e}"
        else:
            if not (post_one_line(line, r) and post_nothing_else_printed(line, r)):
                return {"line": line}, f"printed {r[1]} line(s) to the real stdout"
    return None


def daemon_contracts():
    f = X.find_function(X.module_ast("mod_daemon.py"), "process_input")
    c = Contract(
        name="mod_daemon.process_input", fun=lambda eng: X.vfun(f, "mod_daemon.process_input"),
        params=[("line", [KConst(""), KStr()])],
        post={"exactly_one_reply_line_per_nonempty_request": post_one_line, "nothing_else_reaches_stdout": post_nothing_else_printed},
        raises={}, native=native_process, world=daemon_world(), result_view=view, search=search_process,
        describe=dict(X.describe(f, "mod_daemon.py"), track="U (exception flow + effect count; loop-free)",
                      extraction_drops=["log()/error() calls are no-ops (premise checked syntactically: ENABLE_LOGGING is False); their argument expressions are still evaluated and may raise"]))
    c.feas_timeout_ms = 200
    return [c]


def stdout_scan(rep):
    """frame obligations by mechanical scan of mod_daemon.py (syntactic, over-approximating by name)"""
    import ast

    from pyvc.report import DISCHARGED, VIOLATED, Ob

    tree = X.module_ast("mod_daemon.py")
    body = tree.body
    # (1) prologue: `_stdout = sys.stdout; sys.stdout = sys.stderr` precede the first import of the package
    idx_save = next((i for i, n in enumerate(body) if isinstance(n, ast.Assign) and ast.unparse(n) == "_stdout = sys.stdout"), None)
    idx_redirect = next((i for i, n in enumerate(body) if isinstance(n, ast.Assign) and ast.unparse(n) == "sys.stdout = sys.stderr"), None)
    idx_pkg = next((i for i, n in enumerate(body) if isinstance(n, ast.ImportFrom) and n.level >= 1), None)
    ok1 = idx_save is not None and idx_redirect is not None and idx_pkg is not None and idx_save < idx_redirect < idx_pkg
    rep.add(Ob("mod_daemon#stdout_redirected_before_package_import", DISCHARGED if ok1 else VIOLATED, kind="scan", backend="scan", target="mod_daemon", replayed=True,
               witness={"positions": [idx_save, idx_redirect, idx_pkg]}, detail={} if ok1 else {"observed": "module prologue does not save and redirect sys.stdout before importing the package"}))
    # (2) every use of _stdout is the `file=` argument of a print inside process_input's finally block; every other print has no access to it
    uses = []
    for n in ast.walk(tree):
        if isinstance(n, ast.Name) and n.id == "_stdout" and isinstance(n.ctx, ast.Load):
            uses.append(n.lineno)
    prints = [n for n in ast.walk(tree) if isinstance(n, ast.Call) and isinstance(n.func, ast.Name) and n.func.id == "print"]
    to_real = [p for p in prints if any(k.arg == "file" and ast.unparse(k.value) == "_stdout" for k in p.keywords)]
    f = X.find_function(tree, "process_input")
    fin = [t for t in ast.walk(f) if isinstance(t, ast.Try) and t.finalbody]
    in_finally = set()
    for t in fin:
        for s in t.finalbody:
            for n in ast.walk(s):
                in_finally.add(id(n))
    ok2 = len(to_real) == 1 and id(to_real[0]) in in_finally and len(uses) == 1
    rep.add(Ob("mod_daemon#only_the_reply_print_writes_to_real_stdout", DISCHARGED if ok2 else VIOLATED, kind="scan", backend="scan", target="mod_daemon", replayed=True,
               witness={"uses_of__stdout_at_lines": uses}, detail={} if ok2 else {"observed": f"{len(to_real)} prints to _stdout, {len(uses)} reads of _stdout (expected exactly one, in the finally block of process_input)"}))
    # (3) nothing re-binds sys.stdout back
    rebind = [n.lineno for n in ast.walk(tree) if isinstance(n, ast.Assign) and any(ast.unparse(t) == "sys.stdout" for t in n.targets)]
    ok3 = len(rebind) == 1
    rep.add(Ob("mod_daemon#sys_stdout_is_never_restored", DISCHARGED if ok3 else VIOLATED, kind="scan", backend="scan", target="mod_daemon", replayed=True,
               witness={"assignments_to_sys.stdout_at_lines": rebind}, detail={} if ok3 else {"observed": "sys.stdout is assigned more than once"}))


def process_histories(rep, tier, seed):
    """Bounded stand-in for `main` + the real process: python -m stationeers_pytrapic.mod_daemon under scripted stdin."""
    import base64
    import itertools
    import json
    import random
    import subprocess
    import sys
    import time

    from pyvc.report import HELD, VIOLATED, Ob

    enc = lambda o: base64.b64encode(json.dumps(o).encode()).decode()
    good = {"action": "compile", "code": {"": "from stationeers_pytrapic.symbols import *\ndb.Setting = d0.Setting\n"}}
    alphabet = {
        "valid": enc(good),
        "compile-error": enc({"action": "compile", "code": {"": "def f(:\n"}}),
        "printing-source": enc({"action": "compile", "code": {"": "print('x')\n"}}),
        "crashing-source": enc({"action": "compile", "code": {"": "from stationeers_pytrapic.symbols import *\nx = [1, 2][d0.Setting][3]\n"}}),
        "invalid-base64": "!!!not base64!!!",
        "base64-of-invalid-utf8": base64.b64encode(b"\xff\xfe\xfd").decode(),
        "invalid-json": base64.b64encode(b"{not json").decode(),
        "json-list": enc([1, 2, 3]),
        "unknown-action": enc({"action": "format"}),
        "missing-code": enc({"action": "compile"}),
        "unknown-option": enc(dict(good, options={"bogus": True})),
        "code-not-a-mapping": enc({"action": "compile", "code": 5}),
        "lone-surrogate-action": enc({"action": "\ud83d"}),
        "lone-surrogate-option": enc(dict(good, options={"\udc00pt": 1})),
        "empty": "",
        "whitespace": "   ",
        "long": enc({"action": "compile", "code": {"": "from stationeers_pytrapic.symbols import *\n" + "db.Setting = 1\n" * 400}}),
        "pragma-dunder": enc({"action": "compile", "code": {"": "# pytrapic: __class__\nx = 1\n"}}),
    }
    rnd = random.Random(seed)
    keys = list(alphabet)
    q = tier == "quick"
    hists = [[k] for k in keys] + [[a, "valid"] for a in keys] + [rnd.choices(keys, k=rnd.randrange(3, 5 if q else 7)) for _ in range(10 if q else 120)]
    t0 = time.time()
    bad = None
    env = dict(__import__("os").environ, PYTHONPATH=str(__import__("pyvc.report", fromlist=["REPO"]).REPO / "src"))
    n = 0
    # pairs first (a request after each kind of line), then single lines, then the random histories; 12 daemons at a time
    order = hists[len(keys): 2 * len(keys)] + hists[: len(keys)] + hists[2 * len(keys):]
    jobs = [(h, ending) for h in order for ending in ("EXIT\n", "")]

    def run_one(job):
        h, ending = job
        if time.time() - t0 > (50 if q else 600):
            return None
        text = "".join(alphabet[k] + "\n" for k in h) + ending
        try:
            p = subprocess.run([sys.executable, "-m", "stationeers_pytrapic.mod_daemon"], input=text.encode(), capture_output=True, timeout=120, env=env, cwd="/")
        except subprocess.TimeoutExpired:
            return (h, ending, "daemon did not exit within 120 s")
        out = p.stdout.decode("utf-8", "replace")
        lines = out.split("\n")
        want = sum(1 for k in h if alphabet[k].strip() != "")
        ok = out.endswith("\n") or out == ""
        body = lines[:-1] if ok else lines
        problems = []
        if len(body) != want:
            problems.append(f"{len(body)} stdout lines for {want} non-empty requests")
        for ln in body:
            try:
                obj = json.loads(base64.b64decode(ln, validate=True).decode("utf-8"))
                if not isinstance(obj, dict):
                    problems.append("a reply is not a JSON object")
            except Exception as e:
                problems.append(f"a stdout line is not base64-encoded JSON ({type(e).__name__}): {ln[:60]!r}")
        if p.returncode != 0:
            problems.append(f"exit code {p.returncode}")
        return (h, ending, "; ".join(problems[:3])) if problems else True

    from concurrent.futures import ThreadPoolExecutor

    with ThreadPoolExecutor(12) as tp:
        for job, r in zip(jobs, tp.map(run_one, jobs)):
            if r is None:
                continue
            n += 1
            if r is not True and bad is None:
                bad = r
    ob = Ob("mod_daemon.main#one_reply_line_per_request_in_order", HELD if not bad else VIOLATED, kind="bounded", backend="native", target="mod_daemon (real process)",
            bound=f"{n} runs of the real daemon process; histories of length 1-{4 if q else 6} over a {len(keys)}-letter request alphabet, with and without EXIT", time_s=time.time() - t0)
    if bad:
        ob.witness, ob.replayed = {"history": bad[0], "ending": bad[1], "lines": [alphabet[k] for k in bad[0]]}, True
        ob.detail["observed"] = bad[2]
    rep.add(ob)
    rep.bounded.update(evaluations=n, distinct_nontrivial=len({tuple(h) for h in hists[:max(1, n // 2)]}),
                       rule="request histories over the alphabet in contracts/daemon_c.py; each history is run with EXIT and with end-of-input; distinct by history")
    rep.samples.extend(hists[len(keys): len(keys) + 3])


# ------------------------------------------------------------------------------------------- main(): the request loop
# stdin is a ghost sequence RAW(0..n-1) of non-empty strings (what readline returns before end of input); the ghost counter
# `pos` is the number of lines read; `calls` is the ghost list of line indices process_input has been called for.
RAW = z3.Function("stdin_line", z3.IntSort(), z3.StringSort())


def main_world():
    from pyvc import strings as PS
    from pyvc.ulist import SymSeq, new_list, seq_of

    def h_readline(eng, st, args, kw, origin):
        pos, n = st.ghost["pos"], st.ghost["n_lines"]
        outs = []
        s1 = eng.branch(st, pos < n)
        if s1 is not None:
            s1.assume(z3.Length(RAW(pos)) >= 1)
            s1.ghost["pos"] = pos + 1
            outs.append((s1, VStr(RAW(pos))))
        s0 = eng.branch(st, pos >= n)
        if s0 is not None:
            outs.append((s0, VC("")))
        return outs

    def h_process_input(eng, st, args, kw, origin):
        eng.use("callee contract mod_daemon.process_input: never raises; writes exactly one reply line for a non-empty argument, none for an empty one (proved separately)")
        (line,) = args
        pos = st.ghost["pos"]
        # the argument is the stripped text of the line read last
        st.obligations.append(("main#process_input_receives_the_stripped_line", S.to_str_term(line) == PS.UF_STRIP(RAW(pos - 1))))
        calls = st.ghost["calls"]
        sq = seq_of(st, calls)
        st.store[calls.oid]["__sym__"] = SymSeq(sq.n + 1, [z3.Store(sq.cols[0], sq.n, pos - 1)], 0)
        return [(st, VC(None))]

    w = {}
    stdin = VMod("sys.stdin", {"readline": VFun("builtin", fn=h_readline, name="sys.stdin.readline")})
    w["module:sys"] = VMod("sys", {"stdin": stdin})
    w["sys"] = w["module:sys"]
    w["process_input"] = VFun("builtin", fn=h_process_input, name="contract:process_input")
    w["log"] = VFun("builtin", fn=noop, name="log")
    w["error"] = VFun("builtin", fn=noop, name="error")
    w["Exception"] = VType("Exception")
    w["module:traceback"] = VMod("traceback", {"format_exc": VFun("builtin", fn=lambda e, s, a, k, o: [(s, VStr(fresh("tb", z3.StringSort())))], name="format_exc")})
    return w


def strip_of(i):
    return stdin_line(i).strip()


def stdin_line(i):
    raise NotImplementedError("ghost function: only interpreted symbolically")


def _sym_stdin_line(eng, st, args, kw, origin):
    return [(st, VStr(RAW(S.to_int_term(args[0]))))]


stdin_line.__pyvc_symbolic__ = _sym_stdin_line


def m_progress(k, pos, calls, n):
    return 0 <= pos and pos <= n and len(calls) == pos


def m_calls_in_order(k, pos, calls, n):
    return all(calls[j] == j for j in range(len(calls)))


def m_no_exit_so_far(k, pos, calls, n):
    return all(stdin_line(j).strip() != "EXIT" for j in range(pos))


def m_variant(k, pos, calls, n):
    # lines not yet read: every trip round the loop consumes one
    return n - pos + 1


def main_post_every_line_before_exit_is_processed_once_in_order(n, result):
    """result = (number of lines read, calls): process_input ran exactly once for every line before the first EXIT line
    (or before end of input), in order, and for no other line"""
    pos, calls = result
    served = len(calls)
    return (all(calls[j] == j for j in range(served)) and all(stdin_line(j).strip() != "EXIT" for j in range(served))
            and served <= n and (served == n or stdin_line(served).strip() == "EXIT"))


def main_post_stops_reading(n, result):
    # nothing is read beyond the EXIT line; end of input is noticed by reading once more
    pos, calls = result
    return pos == len(calls) + (0 if len(calls) == n else 1)


_MAIN_PROBE = r"""
import asyncio, io, json, sys
from stationeers_pytrapic import mod_daemon as D
calls = []
D.process_input = lambda line: calls.append(line)
sys.stdin = io.StringIO(json.loads(sys.argv[1]))
asyncio.run(D.main())
sys.stderr.write("CALLS " + json.dumps(calls) + "\n")
"""


def search_main(clause):
    """the real main() with a recording process_input and a scripted stdin, in a child process (a hang is a finding too)"""
    import json
    import subprocess
    import sys

    from pyvc.report import REPO

    texts = ["", "a\n", "a\nb\n", "a\n\nb\n", "   \nb\n", "a\nEXIT\nb\n", "EXIT\n", " EXIT \nb\n", "a\nEXITS\nb\n", "a\nb", "\n\n\nq\n", "x\n" * 7, "a\n\t\nEXIT"]
    env = dict(__import__("os").environ, PYTHONPATH=str(REPO / "src"))
    for t in texts:
        lines = t.split("\n")
        if lines and lines[-1] == "":
            lines = lines[:-1]
        want = []
        for ln in lines:
            if ln.strip() == "EXIT":
                break
            want.append(ln.strip())
        try:
            p = subprocess.run([sys.executable, "-c", _MAIN_PROBE, json.dumps(t)], capture_output=True, text=True, timeout=60, env=env, cwd="/")
        except subprocess.TimeoutExpired:
            return {"stdin": t}, "main() did not return within 60 s"
        got = [l for l in p.stderr.splitlines() if l.startswith("CALLS ")]
        if not got:
            return {"stdin": t}, f"main() ended abnormally: {p.stderr[-300:]}"
        calls = json.loads(got[-1][6:])
        if calls != want:
            return {"stdin": t}, f"process_input was called with {calls}, expected {want}"
    return None


def main_contract():
    import ast as _ast

    from pyvc.loops import LoopSpec
    from pyvc.ulist import SymSeq, new_list

    f = X.find_function(X.module_ast("mod_daemon.py"), "main")

    def mk_n(st, pname):
        n = fresh("n_lines", z3.IntSort())
        st.assume(n >= 0)
        st.ghost["n_lines"] = n
        st.ghost["pos"] = z3.IntVal(0)
        st.ghost["calls"] = new_list(st, SymSeq.empty(0))
        return VInt(n)

    def havoc(eng, st):
        st.ghost["pos"] = fresh("h_pos", z3.IntSort())
        st.ghost["calls"] = new_list(st, SymSeq.fresh(st, "h_calls", 0))

    class _G:
        pass

    def view_main(eng, st, v):
        return VTuple([VInt(st.ghost["pos"]), st.ghost["calls"]])

    def setup(eng, st, args):
        eng.uf_patterns = True
        # ghost values are read by the invariant through the 'ghost:' prefix
        st.ghost["n"] = args["n"]

    fn = "mod_daemon.main"
    spec = LoopSpec([m_progress, m_calls_in_order, m_no_exit_so_far], ["ghost:pos", "ghost:calls", "ghost:n"], havoc=havoc, name="loop", variant=m_variant)
    c = Contract(name="mod_daemon.main", fun=lambda eng: X.vfun(f, fn), params=[("n", [KCustom("stdin: any number of lines, any text", mk_n, lambda m, v: None)])],
                 ghost=["n"], post={"every_line_before_EXIT_or_EOF_is_processed_once_in_order": main_post_every_line_before_exit_is_processed_once_in_order,
                                    "reading_stops_at_EXIT_or_EOF": main_post_stops_reading},
                 raises={}, world=main_world(), loop_specs={f"{fn}@while[True]": spec}, setup=setup, result_view=view_main, search=search_main, timeout=60.0,
                 describe=dict(X.describe(f, "mod_daemon.py"), track="U: while-loop invariant over the ghost input position and the ghost list of served lines",
                               extraction_drops=["`async` (the coroutine has no await)", "log()/error() are no-ops (premise checked syntactically)"]))
    c.feas_timeout_ms = 500
    return c
