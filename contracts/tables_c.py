"""C16: exhaustive ground obligations over the generated tables (structures, intrinsics, enums).
The space is finite, every obligation is a closed term decided by evaluation against the trusted specs
(spec/crc32.py, spec/ic10_isa.py, webapp/src/ic10.json).  Everything is re-read from the working tree."""
from __future__ import annotations

import ast
import enum
import json
import re
import time

from pyvc.report import DISCHARGED, REPO, SRC, VIOLATED, Ob
from spec.crc32 import crc32_signed_bytes
from spec.ic10_isa import ISA


def _ob(oid, ok, target, detail=None, witness=None):
    o = Ob(oid, DISCHARGED if ok else VIOLATED, kind="exhaustive", backend="eval", target=target, detail=detail or {})
    if not ok:
        o.witness = witness if witness is not None else {"table_entry": oid}
        o.replayed = True  # the obligation IS the evaluation on the real table entry
        o.detail.setdefault("observed", str(detail))
    return o


def token_value(tok):
    """numeric meaning of an emitted hash operand: an int, or HASH("...")"""
    if isinstance(tok, bool):
        return None
    if isinstance(tok, int):
        return tok
    if isinstance(tok, str):
        m = re.fullmatch(r'HASH\("(.*)"\)', tok, re.S)
        if m:
            return crc32_signed_bytes(m.group(1).encode())
    return None


def structure_obligations():
    from stationeers_pytrapic import structures_generated as SG
    from stationeers_pytrapic import types as T
    from stationeers_pytrapic import utils as U

    obs = []
    tree = ast.parse((SRC / "structures_generated.py").read_text())
    cls_nodes = {n.name: n for n in tree.body if isinstance(n, ast.ClassDef)}
    singles = {n: c for n, c in vars(SG).items() if isinstance(c, type) and issubclass(c, T._BaseStructure) and c.__module__ == SG.__name__ and "_prefab_name" in vars(c)}
    plurals = {n: c for n, c in vars(SG).items() if isinstance(c, type) and issubclass(c, T._BaseStructures) and c.__module__ == SG.__name__ and "_prefab_name" in vars(c)}
    by_prefab = {}
    for n, c in plurals.items():
        by_prefab.setdefault(c._prefab_name, []).append((n, c))
    reg = T.IC10Register("t", code_expr="r0")
    old_mode = U._output_mode
    try:
        for name, cls in sorted(singles.items()):
            tgt = f"structures_generated.{name}"
            want = crc32_signed_bytes(str(cls._prefab_name).encode())
            obs.append(_ob(f"{tgt}#hash_is_signed_crc32_of_prefab_name", vars(cls).get("_hash") == want, tgt,
                           {"prefab": cls._prefab_name, "stored": vars(cls).get("_hash"), "expected": want}))
            pl = by_prefab.get(cls._prefab_name, [])
            ok_pl = len(pl) == 1
            obs.append(_ob(f"{tgt}#has_exactly_one_plural_form", ok_pl, tgt, {"plural_classes": [p[0] for p in pl]}))
            if not ok_pl:
                continue
            pname, pcls = pl[0]
            obs.append(_ob(f"{tgt}#plural_has_same_hash", vars(pcls).get("_hash") == vars(cls).get("_hash") == want, tgt,
                           {"plural": pname, "plural_hash": vars(pcls).get("_hash"), "singular_hash": vars(cls).get("_hash"), "expected": want}))
            single_name = pname.lstrip("_")
            inst = vars(SG).get(single_name)
            obs.append(_ob(f"{tgt}#plural_singleton_exists", isinstance(inst, pcls) and type(inst) is pcls and inst._name is None, tgt, {"singleton": single_name}))
            if not isinstance(inst, pcls):
                continue
            # the hash that reaches emitted code, through both spellings and both output modes
            lts = [k for k, v in _properties(pcls) if not k.startswith("_")]
            emitted = {}
            for mode in (U.OutputMode.VERBOSE, U.OutputMode.COMPACT):
                U._output_mode = mode
                for lt in lts[:40]:
                    try:
                        acc = getattr(inst, lt)
                    except Exception as e:
                        emitted[(mode.name, lt)] = f"raised {type(e).__name__}"
                        continue
                    if isinstance(acc, T._DevicesLogicType):
                        try:
                            i1 = acc._load(T.LogicBatchMethod.Sum)(reg)          # Xs.<lt>.Sum   spelled via _load
                            i2 = getattr(acc, "Sum")._load(reg)                  # Xs.<lt>.Sum
                            i3 = getattr(getattr(inst, "Sum"), lt)._load(reg)    # Xs.Sum.<lt>
                            i4 = acc._set(1)
                            i5 = getattr(pcls("n"), lt)._load(T.LogicBatchMethod.Sum)(reg)
                            for tag, ins in (("load", i1), ("lt.Sum", i2), ("Sum.lt", i3), ("set", i4), ("named", i5)):
                                emitted[(mode.name, lt, tag)] = token_value(ins.inputs[0].value)
                        except Exception as e:
                            emitted[(mode.name, lt)] = f"raised {type(e).__name__}: {e}"
            bad = {str(k): v for k, v in emitted.items() if v != want}
            obs.append(_ob(f"{tgt}#batch_code_carries_the_prefab_hash", not bad and len(emitted) > 0, tgt,
                           {"spellings_checked": len(emitted), "expected": want, "wrong": dict(list(bad.items())[:6])}))
            # named slots
            slot_ok, slot_detail, nslots = True, [], 0
            for kind, c, node in ((name, cls, cls_nodes.get(name)), (pname, pcls, cls_nodes.get(pname))):
                if node is None:
                    continue
                for item in node.body:
                    if not (isinstance(item, ast.FunctionDef) and any(ast.unparse(d) == "property" for d in item.decorator_list)):
                        continue
                    ret = [s for s in item.body if isinstance(s, ast.Return)]
                    if not ret:
                        continue
                    src = ast.unparse(ret[0].value)
                    m = re.fullmatch(r"self\.slot(\d+)", src)
                    m2 = re.fullmatch(r"_SlotType\w*\(self, (\d+)\)", src)
                    if m or m2:
                        nslots += 1
                        n = int((m or m2).group(1))
                        try:
                            o = c() if c is pcls else c("d0")
                            v = getattr(o, item.name)
                            idx = v._slot_index
                            numbered = getattr(o, f"slot{n}")._slot_index
                            typed = type(v) is type(getattr(o, f"slot{n}"))
                        except Exception as e:
                            idx, numbered, typed = f"raised {type(e).__name__}: {e}", None, False
                        if not (idx == n and numbered == n and typed) or (item.name.startswith("slot") and item.name != f"slot{n}"):
                            slot_ok = False
                            slot_detail.append({"class": kind, "property": item.name, "source": src, "slot_index": idx, "slotN_index": numbered})
            if nslots:
                obs.append(_ob(f"{tgt}#named_slots_resolve_to_numbered_slots", slot_ok, tgt, {"slot_properties": nslots, "wrong": slot_detail[:5]}))
        # every plural class belongs to a singular one
        for pname, pcls in sorted(plurals.items()):
            has = any(c._prefab_name == pcls._prefab_name for c in singles.values())
            obs.append(_ob(f"structures_generated.{pname}#has_singular_form", has, f"structures_generated.{pname}", {"prefab": pcls._prefab_name}))
    finally:
        U._output_mode = old_mode
    return obs, {"singular_classes": len(singles), "plural_classes": len(plurals)}


def _properties(cls):
    seen = {}
    for c in cls.__mro__:
        for k, v in vars(c).items():
            if isinstance(v, property) and k not in seen and k not in ("Minimum", "Maximum", "Average", "Sum"):
                seen[k] = v
    return sorted(seen.items())


def intrinsic_obligations():
    obs = []
    tree = ast.parse((SRC / "intrinsics.py").read_text())
    listed = json.loads((REPO / "webapp" / "src" / "ic10.json").read_text())["instructions"]
    emitted_ops = set()
    n = 0
    for f in tree.body:
        if not isinstance(f, ast.FunctionDef):
            continue
        tgt = f"intrinsics.{f.name}"
        rets = [s for s in f.body if isinstance(s, ast.Return)]
        call = rets[0].value if rets else None
        if not (isinstance(call, ast.Call) and ast.unparse(call.func) in ("_IC10", "IC10", "IC10Instruction") and call.args and isinstance(call.args[0], ast.Constant)):
            if f.name in ("HASH", "STR"):
                continue  # token functions, under contract in contracts/tokens_c.py
            obs.append(_ob(f"{tgt}#is_an_instruction_wrapper", False, tgt, {"source": ast.unparse(f)[:200]}))
            continue
        n += 1
        op = call.args[0].value
        emitted_ops.add(op)
        ins = [ast.unparse(e) for e in call.args[1].elts] if len(call.args) > 1 and isinstance(call.args[1], ast.List) else None
        out = ast.unparse(call.args[2]) if len(call.args) > 2 else "None"
        params = [a.arg for a in f.args.args]
        obs.append(_ob(f"{tgt}#emits_instruction_of_its_own_name", op == f.name.rstrip("_") or (op == f.name), tgt, {"opcode": op}))
        obs.append(_ob(f"{tgt}#opcode_exists", op in ISA and op in listed, tgt, {"opcode": op}))
        obs.append(_ob(f"{tgt}#operands_are_the_arguments_in_order", ins == params and not f.args.vararg and not f.args.kwonlyargs, tgt, {"operands": ins, "parameters": params}))
        if op in ISA:
            has_out, isa_ins = ISA[op]
            obs.append(_ob(f"{tgt}#result_iff_output_register", (out != "None") == has_out, tgt, {"wrapper_has_result": out != "None", "isa_has_output_register": has_out}))
            total = len(ins or []) + (1 if out != "None" else 0)
            obs.append(_ob(f"{tgt}#operand_count_matches_isa", total == len(isa_ins) + (1 if has_out else 0), tgt, {"emitted_operands": total, "isa_operands": len(isa_ins) + (1 if has_out else 0)}))
    for op in sorted(listed):
        obs.append(_ob(f"ic10.json:{op}#has_wrapper", op in emitted_ops, "webapp/src/ic10.json", {"opcode": op}))
    return obs, {"wrappers": n, "isa_rows": len(ISA), "listed": len(listed)}


def enum_obligations():
    from stationeers_pytrapic import types_generated as TG
    from stationeers_pytrapic import utils as U

    obs = []
    classes = {n: c for n, c in vars(TG).items() if isinstance(c, type) and issubclass(c, enum.Enum) and c.__module__ == TG.__name__}
    bare = {"LogicType", "LogicSlotType", "LogicBatchMethod"}
    members = 0
    old = U._output_mode
    try:
        for cname, cls in sorted(classes.items()):
            tgt = f"types_generated.{cname}"
            # aliases: two names for one number are collapsed by Enum into one member; __members__ still lists both
            by_value = {}
            for mname, m in cls.__members__.items():
                by_value.setdefault(m.value, []).append(mname)
            dup = {v: ns for v, ns in by_value.items() if len(ns) > 1}
            obs.append(_ob(f"{tgt}#no_two_names_share_a_number", not dup, tgt, {"members": len(cls.__members__), "shared": {str(k): v for k, v in list(dup.items())[:5]}}))
            bad = []
            for mname, m in cls.__members__.items():
                members += 1
                U._output_mode = U.OutputMode.VERBOSE
                v = U.format_enum(m)
                U._output_mode = U.OutputMode.COMPACT
                c = U.format_enum(m)
                want_v = mname if cname in bare else f"{cname}.{mname}"
                # the verbose spelling must name the member whose number the compact spelling prints
                resolved = cls.__members__.get(str(v).split(".")[-1])
                if not (v == want_v and isinstance(c, int) and not isinstance(c, bool) and resolved is not None and resolved.value == c and int(c) == int(m.value)):
                    bad.append({"member": mname, "verbose": v, "compact": repr(c)})
            obs.append(_ob(f"{tgt}#verbose_name_and_compact_number_denote_the_same_member", not bad, tgt, {"wrong": bad[:5]}))
    finally:
        U._output_mode = old
    return obs, {"enum_classes": len(classes), "enum_members": members}


def enum_snapshot_obligations():
    """(class, member, value) against the pinned game data (spec/enum_snapshot.json, trusted): catches a transposed pair,
    which injectivity alone cannot see.  An upstream renumbering after a game update is reported as 'differs from pinned game data'."""
    from stationeers_pytrapic import types_generated as TG
    from pyvc.report import VERIF

    snap = json.loads((VERIF / "spec" / "enum_snapshot.json").read_text())
    obs = []
    for cname, table in sorted(snap.items()):
        cls = getattr(TG, cname, None)
        cur = {k: int(v.value) for k, v in cls.__members__.items()} if cls is not None else None
        diff = None if cur is None else {k: (table.get(k), cur.get(k)) for k in set(table) | set(cur) if table.get(k) != cur.get(k)}
        obs.append(_ob(f"types_generated.{cname}#matches_pinned_game_data", cur is not None and not diff, f"types_generated.{cname}",
                       {"differs_from_pinned_game_data": dict(list((diff or {}).items())[:5])}))
    return obs
