"""C11 / C12: state that survives a compilation, the constexpr cache key, order dependence; bounded request histories and
bounded comparison of constexpr results with direct evaluation.

Deductive reach is limited here (DESIGN 6.C11 / 6.C12): the frame of compile_code needs ownership reasoning over astroid
objects, and constexpr evaluation is delegated to a CPython child process.  What can be stated on the code is stated as
syntactic (scan) obligations that over-approximate by name; the rest is a bounded stand-in."""
from __future__ import annotations

import ast
import json
import os
import random
import subprocess
import sys
import time

from pyvc import extract as X
from pyvc.report import DISCHARGED, HELD, REPO, SRC, UNDECIDED, VIOLATED, Ob

PKG_FILES = ["utils.py", "types.py", "compiler.py", "compile_pass.py", "generate_code.py", "register_assignment.py", "symbols.py", "intrinsics.py", "builtins.py"]

# module-level state written from inside functions: every site must be classified here with the lemma that makes it harmless
CLASSIFIED_GLOBALS = {
    ("utils.py", "_output_mode"): "overwritten from options.compact by compile_code before every compilation (scan obligation compile_code#sets_output_mode_first)",
    ("utils.py", "_eval_constexpr_cache"): "memo keyed by the complete evaluation script (scan obligation eval_constexpr#cache_key_is_the_script)",
    ("utils.py", "_all_hashes"): "filled once from the constant symbol tables; idempotent",
    ("compiler.py", "_last_time"): "only written when _DO_TIMING is True (premise checked by C10)",
}


def global_write_scan():
    obs = []
    found = {}
    for rel in PKG_FILES:
        p = SRC / rel
        if not p.exists():
            continue
        tree = ast.parse(p.read_text())
        module_names = {t.id for n in tree.body if isinstance(n, (ast.Assign, ast.AnnAssign)) for t in (n.targets if isinstance(n, ast.Assign) else [n.target]) if isinstance(t, ast.Name)}
        for fn in [n for n in ast.walk(tree) if isinstance(n, (ast.FunctionDef, ast.AsyncFunctionDef))]:
            declared = {name for n in ast.walk(fn) if isinstance(n, ast.Global) for name in n.names}
            for n in ast.walk(fn):
                # assignment to a declared global
                if isinstance(n, ast.Name) and isinstance(n.ctx, ast.Store) and n.id in declared:
                    found.setdefault((rel, n.id), []).append(n.lineno)
                # mutation of a module-level container: x[...] = v, x.add/append/update/clear/pop(...)
                if isinstance(n, ast.Subscript) and isinstance(n.ctx, ast.Store) and isinstance(n.value, ast.Name) and n.value.id in module_names:
                    found.setdefault((rel, n.value.id), []).append(n.lineno)
                if isinstance(n, ast.Call) and isinstance(n.func, ast.Attribute) and isinstance(n.func.value, ast.Name) and n.func.value.id in module_names \
                        and n.func.attr in ("add", "append", "update", "clear", "pop", "extend", "insert", "setdefault", "remove", "discard"):
                    local_names = {a.arg for a in fn.args.args} | {t.id for m in ast.walk(fn) if isinstance(m, ast.Assign) for t in m.targets if isinstance(t, ast.Name)}
                    if n.func.value.id not in local_names:
                        found.setdefault((rel, n.func.value.id), []).append(n.lineno)
    for key, lines in sorted(found.items()):
        ok = key in CLASSIFIED_GLOBALS
        obs.append(Ob(f"{key[0][:-3]}.{key[1]}#module_state_written_by_functions_is_classified", DISCHARGED if ok else VIOLATED, kind="scan", backend="scan", target=f"{key[0][:-3]}.{key[1]}",
                      replayed=True, witness={"file": key[0], "name": key[1], "lines": lines},
                      detail={"lemma": CLASSIFIED_GLOBALS.get(key)} if ok else {"observed": f"module-level state {key[1]} of {key[0]} is written inside a function (lines {lines}) and has no entry in the sidecar: a compilation may depend on earlier ones"}))
    return obs


def cache_key_scan():
    """utils.eval_constexpr: the memo is read and written under one key, that key is the complete script handed to the
    evaluator, and the script contains both the collected function bodies and the call expression."""
    tgt = "utils.eval_constexpr"
    tree = X.module_ast("utils.py")
    try:
        f = X.find_function(tree, "eval_constexpr")
    except Exception as e:
        return [Ob(f"{tgt}#cache_key_is_the_script", UNDECIDED, kind="scan", backend="scan", target=tgt, detail={"reason": str(e)})]
    keys = []
    for n in ast.walk(f):
        if isinstance(n, ast.Subscript) and isinstance(n.value, ast.Name) and n.value.id == "_eval_constexpr_cache":
            keys.append(ast.unparse(n.slice))
        if isinstance(n, ast.Compare) and any(isinstance(c, ast.Name) and c.id == "_eval_constexpr_cache" for c in n.comparators):
            keys.append(ast.unparse(n.left))
        if isinstance(n, ast.Call) and isinstance(n.func, ast.Attribute) and isinstance(n.func.value, ast.Name) and n.func.value.id == "_eval_constexpr_cache":
            keys.append("." + n.func.attr + "(" + ", ".join(ast.unparse(a) for a in n.args[:1]) + ")")
    script_vars = set()
    for n in ast.walk(f):
        if isinstance(n, ast.Call):
            src = ast.unparse(n)
            if src.startswith("subprocess.Popen(") or src.startswith("exec("):
                for m in ast.walk(n):
                    if isinstance(m, ast.Name) and m.id not in ("subprocess", "sys", "exec", "vars"):
                        script_vars.add(m.id)
    problems = []
    if not keys:
        problems.append("the memo is never consulted")
    if len(set(keys)) != 1:
        problems.append(f"the memo is accessed under different keys: {sorted(set(keys))}")
    key = keys[0] if keys else None
    if key is not None and key not in script_vars:
        problems.append(f"the memo key {key!r} is not the text handed to the evaluator ({sorted(script_vars)})")
    # the key variable must be complete when first used as key: no assignment to it after the first lookup
    if key is not None and key.isidentifier():
        first_use = min((n.lineno for n in ast.walk(f) if isinstance(n, ast.Compare) and ast.unparse(n.left) == key and any(isinstance(c, ast.Name) and c.id == "_eval_constexpr_cache" for c in n.comparators)), default=None)
        later = [n.lineno for n in ast.walk(f) if isinstance(n, (ast.Assign, ast.AugAssign)) and any(isinstance(t, ast.Name) and t.id == key for t in (n.targets if isinstance(n, ast.Assign) else [n.target])) and first_use is not None and n.lineno > first_use]
        if later:
            problems.append(f"{key} is modified (lines {later}) after it was used as memo key (line {first_use})")
        # the script must contain the function bodies and the call expression
        builds = [ast.unparse(n.value) for n in ast.walk(f) if isinstance(n, (ast.Assign, ast.AugAssign)) and any(isinstance(t, ast.Name) and t.id == key for t in (n.targets if isinstance(n, ast.Assign) else [n.target]))]
        text = " ".join(builds)
        for needed in ("data.constexpr_functions_code", "call_node.as_string()"):
            if needed not in text:
                problems.append(f"the script does not contain {needed}")
    ok = not problems
    return [Ob(f"{tgt}#cache_key_is_the_script", DISCHARGED if ok else VIOLATED, kind="scan", backend="scan", target=tgt, replayed=True,
               witness={"keys": keys, "evaluator_inputs": sorted(script_vars)}, detail={} if ok else {"observed": "; ".join(problems)})]


def output_mode_scan():
    """compile_code sets the module-global output mode from options.compact on every call, before the compiler runs"""
    tgt = "compiler.compile_code"
    f = X.find_function(X.module_ast("compiler.py"), "compile_code")
    stmts = [ast.unparse(s) for s in f.body]
    i_set = next((i for i, s in enumerate(stmts) if s.startswith("set_output_mode(") and "options.compact" in s), None)
    i_ret = next((i for i, s in enumerate(stmts) if s.startswith("return ")), None)
    ok = i_set is not None and i_ret is not None and i_set < i_ret and all(not s.startswith("return") for s in stmts[:i_set])
    return [Ob(f"{tgt}#sets_output_mode_first", DISCHARGED if ok else VIOLATED, kind="scan", backend="scan", target=tgt, replayed=True, witness={"statements": stmts[-3:]},
               detail={} if ok else {"observed": "compile_code does not unconditionally set the output mode from options.compact before compiling"})]


def set_iteration_scan():
    """order-sensitive iteration over a set makes the result depend on the per-process hash seed"""
    obs = []
    classified = {
        ("register_assignment.py", "all_scopes - set(sorted_scopes)"): "picks any scope whose callers are placed: the register sets depend only on the caller relation, not on the order among unrelated scopes",
        ("register_assignment.py", "called_from.get(scope, set())"): "union of register sets: commutative",
        ("register_assignment.py", "used_symbols"): "each symbol is renamed independently through the finished mapping",
        ("compile_pass.py", "set(pop_ra_positions)"): "positions are sorted before they are applied",
        ("generate_code.py", "labels"): "membership tests only; the result is built from `lines` in order",
        ("generate_code.py", "label_map.items()"): "dict in insertion (source) order",
    }
    for rel in ("register_assignment.py", "compile_pass.py", "generate_code.py", "utils.py", "compiler.py"):
        tree = ast.parse((SRC / rel).read_text())
        for fn in [n for n in ast.walk(tree) if isinstance(n, ast.FunctionDef)]:
            set_vars = set()
            for n in ast.walk(fn):
                if isinstance(n, ast.Assign) and isinstance(n.value, ast.Call) and isinstance(n.value.func, ast.Name) and n.value.func.id == "set":
                    for t in n.targets:
                        if isinstance(t, ast.Name):
                            set_vars.add(t.id)
            for n in ast.walk(fn):
                it = None
                if isinstance(n, ast.For):
                    it = n.iter
                elif isinstance(n, ast.comprehension):
                    it = n.iter
                if it is None:
                    continue
                src = ast.unparse(it)
                is_set = (isinstance(it, ast.Name) and it.id in set_vars) or src.startswith("set(") or (isinstance(it, ast.BinOp) and any(isinstance(x, ast.Name) and x.id in set_vars for x in (it.left, it.right))) \
                    or (isinstance(it, ast.Call) and ast.unparse(it.func).endswith(".get") and "set()" in src)
                if not is_set:
                    continue
                key = (rel, src)
                ok = key in classified
                obs.append(Ob(f"{rel[:-3]}.{fn.name}@for({src})#iteration_order_does_not_matter", DISCHARGED if ok else VIOLATED, kind="scan", backend="scan", target=f"{rel[:-3]}.{fn.name}",
                              replayed=True, witness={"file": rel, "line": getattr(n, "lineno", it.lineno), "iterable": src},
                              detail={"lemma": classified[key]} if ok else {"observed": f"iteration over the set {src!r} is not classified as order-insensitive: the output may depend on PYTHONHASHSEED"}))
    return obs


# ------------------------------------------------------------------------------------------- bounded histories
H = "from stationeers_pytrapic.symbols import *\n"


def request_pool():
    cx = lambda body, call: H + "@constexpr\ndef ticks(n):\n" + body + f"\ndb.Setting = {call}\n"
    lib1 = H + "total = 0\ndef step(p):\n    global total\n    total = total + p\n    return total\n"
    lib2 = H + "total = 5\ncount = 1\ndef step(p):\n    global total, count\n    total = total + p * 2\n    count = count + 1\n    return total + count\n"
    main2 = H + "from library import tank, pump\nwhile True:\n    db.Setting = tank.step(d0.Setting)\n    db.On = pump.step(d0.On)\n    yield_()\n"
    pool = [
        ({"": H + "db.Setting = HASH(\"StructureSolarPanel\") + d0.Setting\n"}, {}),
        ({"": H + "db.Setting = HASH(\"StructureSolarPanel\") + d0.Setting\n"}, {"compact": True}),
        ({"": "# pytrapic: compact, remove-labels\n" + H + "x = d0.Setting\nwhile x > 1:\n    x = x - 1\ndb.Setting = LogicType.On\n"}, {}),
        ({"": H + "x = d0.Setting\nwhile x > 1:\n    x = x - 1\ndb.Setting = LogicType.On\n"}, {}),
        ({"": cx("    return n * 2", "ticks(30)")}, {}),
        ({"": cx("    return n * 4", "ticks(30)")}, {}),
        ({"": cx("    return n + HASH('abc')", "ticks(30)")}, {"compact": True}),
        ({"": cx("    return n * 2", "ticks(31)")}, {}),
        ({"": H + "sensor = DaylightSensor(d0, alias=True)\npanels = SolarPanels\npanels.Horizontal = sensor.Horizontal\n"}, {}),
        ({"": H + "lights = GrowLights[\"Potatos\"]\nlights.On = d0.Setting > 3\n"}, {"compact": True}),
        ({"": H + "def f(a, b):\n    return a * b + 1\nwhile True:\n    db.Setting = f(d0.Setting, 2)\n    db.On = f(1, d0.On)\n    yield_()\n"}, {"inline_functions": False}),
        ({"": H + "def f(a, b):\n    return a * b + 1\nwhile True:\n    db.Setting = f(d0.Setting, 2)\n    db.On = f(1, d0.On)\n    yield_()\n"}, {"use_push_pop_functions": True, "inline_functions": False}),
        # compile-time values of mutable type that are consumed more than once (walked, indexed at run time, sized)
        ({"": H + "@constexpr\ndef table():\n    return [10 * (k + 1) for k in range(7)]\nlevels = table()\nfor v in levels:\n    db.Setting = v\nwhile True:\n    db.On = levels[d0.Setting]\n    yield_()\n"}, {}),
        ({"": H + "@constexpr\ndef table():\n    return [3, 1, 4, 1, 5]\nlevels = table()\nwhile True:\n    db.On = levels[d0.Setting]\n    for v in levels:\n        db.Setting = v\n    yield_()\n"}, {"compact": True}),
        ({"": H + "levels = [9, 8, 7, 6, 5, 4, 3]\nwhile True:\n    db.On = levels[d0.Setting]\n    for v in levels:\n        db.Setting = v\n    yield_()\n"}, {}),
        # requests without an options argument (the API's default), with and without directives in the text
        ({"": H + "x = d0.Setting\nwhile x > 1:\n    x = x - 1\ndb.Setting = LogicType.On\n"}, None),
        ({"": "# pytrapic: compact, remove-labels, no-append-version\n" + H + "x = d0.Setting\nwhile x > 1:\n    x = x - 1\ndb.Setting = LogicType.On\n"}, None),
        ({"": "# pytrapic: no-inline-functions\n" + H + "def f(a):\n    return a + 1\ndb.Setting = f(d0.Setting)\n"}, None),
        ({"": H + "db.Setting = unknown_thing\n"}, {}),
        ({"": "def broken(:\n"}, {}),
        ({"": main2, "tank": lib1, "pump": lib2}, {}),
        ({"": main2, "tank": lib2, "pump": lib1}, {"inline_functions": False}),
        ({"": H + "stack[3] = d0.Setting\ndb.Setting = stack[3] + 12345678\n"}, {"compact": True}),
        ({"": H + "db.Setting = DisplayMode.Celsius\ndb.Mode = LogicType.Setting\n"}, {"compact": True}),
        ({"": H + "db.Setting = DisplayMode.Celsius\ndb.Mode = LogicType.Setting\n"}, {}),
    ]
    return pool


_FRESH = r"""
import json, sys
from stationeers_pytrapic.compiler import compile_code, CompileOptions
reqs = json.loads(sys.stdin.read())
out = []
for src, opts in reqs:
    r = compile_code(src, CompileOptions(**opts)) if opts is not None else compile_code(src)
    out.append({k: v for k, v in r.items()} if "code" in r else {"error": r["error"].get("description")})
print(json.dumps(out))
"""


def fresh_results(reqs, hashseed):
    env = dict(os.environ, PYTHONPATH=str(REPO / "src"), PYTHONHASHSEED=str(hashseed))
    p = subprocess.run([sys.executable, "-c", _FRESH], input=json.dumps(reqs).encode(), capture_output=True, env=env, cwd="/", timeout=600)
    if p.returncode != 0:
        raise RuntimeError("fresh process failed: " + p.stderr.decode()[-500:])
    return json.loads(p.stdout.decode().strip().splitlines()[-1])


def norm(r):
    return {k: v for k, v in r.items()} if "code" in r else {"error": r["error"].get("description")}


def inconclusive(r):
    """a constexpr child that hit its 1 s timeout (load dependent) is never a verdict"""
    return "error" in r and "Timeout during evaluating constexpr" in str(r["error"])


def history_check(rep, tier, seed):
    import copy

    from stationeers_pytrapic.compiler import CompileOptions, compile_code

    q = tier == "quick"
    t0 = time.time()
    pool = request_pool()
    reqs = [[s, o] for s, o in pool]
    # reference: each request alone in a fresh process, under several hash seeds
    ref = None
    bad = None
    from concurrent.futures import ThreadPoolExecutor

    tp = ThreadPoolExecutor(8)
    for hs in ([0, 12345] if q else [0, 1, 2, 3, 12345, 999]):
        chunks = [reqs[i:i + 5] for i in range(0, len(reqs), 5)]   # a few requests per process keeps this affordable; order inside is fixed
        singles = [x for part in tp.map(lambda c: fresh_results(c, hs), chunks) for x in part]
        if ref is None:
            ref = singles
        else:
            diff = [i for i in range(len(ref)) if singles[i] != ref[i] and not inconclusive(singles[i]) and not inconclusive(ref[i])]
            if diff:
                k = diff[0]
                bad = ("hash-seed", [k], f"PYTHONHASHSEED={hs} gives a different result for request {k} than PYTHONHASHSEED=0", reqs[k])
                break
            ref = [singles[i] if inconclusive(ref[i]) else ref[i] for i in range(len(ref))]
    # truly single-request fresh processes for the reference (no neighbours at all)
    if bad is None:
        alone = [x[0] for x in tp.map(lambda r: fresh_results([r], 0), reqs)]
        for _ in range(2):  # give timed-out constexpr evaluations another chance
            alone = [fresh_results([reqs[i]], 0)[0] if inconclusive(a) else a for i, a in enumerate(alone)]
        diff = [i for i in range(len(ref)) if alone[i] != ref[i] and not inconclusive(alone[i]) and not inconclusive(ref[i])]
        if diff:
            k = diff[0]
            bad = ("fresh-vs-batch", [k], f"request {k} compiled alone in a fresh process differs from the same request compiled after others", reqs[k])
        ref = alone
    rnd = random.Random(seed)
    n_hist = 0
    if bad is None:
        hists = [[i, j] for i in range(len(pool)) for j in range(len(pool)) if i != j][: (120 if q else 10**6)]
        hists += [rnd.sample(range(len(pool)), 3) for _ in range(40 if q else 400)]
        rnd.shuffle(hists)
        # every request twice in a row comes first (cheap, and the shape in which a polluted cache shows), then the shuffled rest
        hists = [[i, i] for i in range(len(pool))] + hists
        t_h = time.time()
        for h in hists:
            for idx in h:
                src, opts = pool[idx]
                o = CompileOptions(**opts) if opts is not None else None
                o_before = copy.deepcopy(o)
                src_before = copy.deepcopy(src)
                r = norm(compile_code(src, o) if o is not None else compile_code(src))
                if inconclusive(r) or inconclusive(ref[idx]):
                    continue
                if r != ref[idx]:
                    bad = ("history", h, f"request {idx} after {h[:h.index(idx)]} differs from the fresh-process result: {json.dumps(r)[:300]} vs {json.dumps(ref[idx])[:300]}", reqs[idx])
                    break
                if o != o_before or src != src_before:
                    bad = ("mutation", h, f"compile_code modified its {'options object' if o != o_before else 'source mapping'} (request {idx})", reqs[idx])
                    break
            n_hist += 1
            if bad or time.time() - t_h > (45 if q else 1200):
                break
    ob = Ob("compiler.compile_code#result_is_a_function_of_sources_and_options", HELD if not bad else VIOLATED, kind="bounded", backend="native", target="compiler.compile_code",
            bound=f"{n_hist} request histories (length 2-3) over a pool of {len(pool)} requests; fresh-process references under several PYTHONHASHSEED values", time_s=time.time() - t0)
    if bad:
        ob.witness, ob.replayed = {"kind": bad[0], "history_of_pool_indices": bad[1], "request": bad[3]}, True
        ob.detail["observed"] = bad[2]
    rep.add(ob)
    rep.bounded.update(evaluations=n_hist * 2 + len(pool) * 4, distinct_nontrivial=n_hist,
                       rule="request histories over the pool in contracts/history_c.py (compact on/off, pragmas, aliases, constexpr with equal call text and different bodies, named batches, libraries, errors); distinct by index sequence")
    rep.samples.extend([{"sources": list(s.keys()), "options": o} for s, o in pool[:3]])


# ------------------------------------------------------------------------------------------- C12: constexpr equals direct evaluation
def constexpr_cases(seed, n):
    rnd = random.Random(seed)
    bodies = [
        ("def f(a, b=2):\n    return a * b + 1", ["f(3)", "f(3, 4)", "f(b=5, a=2)", "f(-1)"]),
        ("def f(a):\n    s = 0\n    for i in range(a):\n        s += i * i\n    return s", ["f(4)", "f(0)", "f(10)"]),
        ("def f(a):\n    return a // 3 + a % 3 + (a ^ 5) + (a << 2) - (a >> 1)", ["f(17)", "f(3)"]),
        ("def f(a):\n    if a > 2:\n        return 1.5\n    return 0.25", ["f(3)", "f(1)"]),
        ("def f(name):\n    return HASH(name)", ["f('StructureSolarPanel')", "f('x')", "f('Out')"]),
        ("def f(name):\n    return len(name) * 7 + ord(name[0])", ["f('abc')"]),
        ("def f(a):\n    return int(LogicType.On) + a", ["f(1)"]),
        ("def g(a):\n    return a + 1\n@constexpr\ndef f(a):\n    return g(a) * g(a + 1)", ["f(2)", "f(5)"]),  # nested constexpr calls (g gets its own decorator below)
        ("def f(a):\n    return a / 7", ["f(1)", "f(22)"]),
        ("def f(a):\n    return 2 ** a", ["f(10)", "f(40)"]),
    ]
    cases = []
    for body, calls in bodies:
        for call in calls:
            for pos in ("main", "function", "nested", "library"):
                if pos == "library" and "def g(" in body:
                    continue  # a call between constexpr functions inside a library: recorded known finding C12-library-internal-call
                cases.append((body, call, pos))
    rnd.shuffle(cases)
    return cases[:n]


def build_program(body, call, pos):
    dec = "@constexpr\n" + body + "\n"
    if "def g(" in body:
        dec = "@constexpr\n" + body + "\n"   # body starts with g: both g and f carry the decorator
    if pos == "main":
        return {"": H + dec + f"db.Setting = {call}\n"}, "db Setting"
    if pos == "function":
        return {"": H + dec + f"def use(p):\n    db.Setting = {call}\n    db.On = p\nuse(d0.Setting)\nuse(d0.On)\n"}, "db Setting"
    if pos == "nested":
        return {"": H + dec + f"x = d0.Setting\ndb.Setting = ({call}) * 1 + 0\ndb.On = x\n"}, "db Setting"
    if pos == "library-internal":
        lib = H + dec + f"def use(p):\n    db.Setting = {call}\n    db.On = p\n"
        return {"": H + "from library import lib\nlib.use(d0.Setting)\nlib.use(d0.On)\n", "lib": lib}, "db Setting"
    # constexpr function of a library, called from the main file through the module
    lib = H + dec
    return {"": H + "from library import lib\n" + f"db.Setting = lib.{call}\n", "lib": lib}, "db Setting"


def direct_value(body, call):
    from spec.crc32 import crc32_signed_bytes
    from stationeers_pytrapic import types_generated as TG

    ns = {"HASH": lambda s: crc32_signed_bytes(s.encode()), "constexpr": lambda f: f}
    ns.update({k: v for k, v in vars(TG).items() if not k.startswith("_")})
    exec(body.replace("@constexpr\n", ""), ns)
    return json.loads(json.dumps(eval(call, ns)))


def constexpr_check(rep, tier, seed):
    import re

    from spec import ic10_machine as M
    from stationeers_pytrapic.compiler import CompileOptions, compile_code

    q = tier == "quick"
    t0 = time.time()
    cases = constexpr_cases(seed, 36 if q else 400)
    bad = None
    n = 0
    inconclusive = 0
    for body, call, pos in cases:
        srcs, where = build_program(body, call, pos)
        r = compile_code(srcs, CompileOptions(append_version=False, inline_functions=False))
        if "error" in r:
            if "Timeout" in r["error"].get("description", ""):
                inconclusive += 1  # 1 s child timeout under load: never a verdict
                continue
            bad = (body, call, pos, "compilation failed: " + r["error"]["description"][:200], srcs)
            break
        want = float(direct_value(body, call))  # (the call text is evaluated without the module prefix)
        lits = [M.parse_number(t[3]) for t in (M.tokenize(l) for l in r["code"].split("\n")) if len(t) == 4 and t[0] == "s" and t[1] == "db" and t[2] == "Setting"]
        n += 1
        if not lits or lits[0] is None or not (lits[0] == want or abs(lits[0] - want) <= 1e-15 * abs(want)):
            bad = (body, call, pos, f"emitted {[l for l in r['code'].split(chr(10)) if 'db Setting' in l]}; calling the function directly gives {want!r}", srcs)
            break
        # the decorated function itself emits no code: no label / jal for it
        if re.search(r"^\s*(lib\.)?f:", r["code"], re.M) or re.search(r"\bjal\s+(lib\.)?f\b", r["code"]):
            bad = (body, call, pos, "the @constexpr function was emitted as code", srcs)
            break
        if time.time() - t0 > (60 if q else 900):
            break
    # known finding: a library's constexpr function called from inside the library (replayed every run)
    srcs, _ = build_program("def f(a, b=2):\n    return a * b + 1", "f(3, 4)", "library-internal")
    r = compile_code(srcs, CompileOptions(append_version=False))
    if "error" in r and "NameError" in r["error"].get("description", ""):
        rep.add(Ob("utils.eval_constexpr#literal_equals_direct_call[known:C12-library-internal-call]", VIOLATED, kind="bounded", backend="native", target="utils.eval_constexpr",
                   replayed=True, witness={"sources": srcs}, detail={"observed": r["error"]["description"][:300]}))
    else:
        rep.extra.setdefault("known_findings_not_reproduced", []).append("C12-library-internal-call")
    # rejected constructs
    rejected = []
    if not bad:
        for kw in ("open('x')", "eval('1')", "exec('x=1')"):
            r = compile_code(H + f"@constexpr\ndef f(a):\n    {kw}\n    return 1\ndb.Setting = f(1)\n")
            rejected.append(kw)
            if "error" not in r:
                bad = ("def f(a): " + kw, "f(1)", "main", f"a constexpr function containing {kw.split('(')[0]} was accepted", None)
                break
    # ... in every syntactic position (each body would evaluate to 1 if it were accepted, so acceptance shows as a missing error)
    t1 = time.time()
    rej_bad, n_rej = None, 0
    templates = ["def f(a):\n    h = {w}\n    return 1", "def f(a, g={w}):\n    return 1", "def f(a):\n    list(map({w}, []))\n    return 1",
                 "def f(a):\n    import builtins\n    h = builtins.{w}\n    return 1", "def f(a):\n    def inner():\n        return {w}\n    return 1",
                 "def f(a):\n    k = lambda: {w}\n    return 1", "def f(a):\n    return 1 if {w} is not None else 1",
                 "def f(a):\n    if a < 0:\n        {w}('x')\n    return 1", "def f(a):\n    return [1 for _ in [{w}]][0]", "def f(a):\n    {w}('1', *[])\n    return 1" ]
    for w in ("open", "eval", "exec"):
        for t in templates:
            body = t.format(w=w)
            r = compile_code(H + "@constexpr\n" + body + "\ndb.Setting = f(1)\n", CompileOptions(append_version=False))
            n_rej += 1
            if "error" not in r and rej_bad is None:
                rej_bad = (body, f"a constexpr function that contains the name {w} was accepted and evaluated; emitted: {r.get('code', '')[:80]!r}")
    ob = Ob("compile_pass.CompilerPassHandleConstexpr.check_constexpr_function#functions_containing_open_eval_exec_are_rejected", HELD if not rej_bad else VIOLATED, kind="bounded", backend="native",
            target="compile_pass.CompilerPassHandleConstexpr.check_constexpr_function", bound=f"{n_rej} constexpr functions: the names open / eval / exec as alias source, default argument, call argument, attribute, inside a nested def / lambda / comprehension / conditional expression / dead branch, starred call", time_s=time.time() - t1)
    if rej_bad:
        ob.witness, ob.replayed = {"sources": H + "@constexpr\n" + rej_bad[0] + "\ndb.Setting = f(1)\n", "options": {"append_version": False}}, True
        ob.detail["observed"] = rej_bad[1]
    rep.add(ob)
    # same call text, different bodies, in one process (the result must follow the body)
    if not bad:
        for b1, b2 in (("    return n * 2", "    return n * 4"), ("    return n + 1", "    return n + HASH('k')")):
            outs = []
            for b in (b1, b2, b1):
                r = compile_code(H + "@constexpr\ndef ticks(n):\n" + b + "\ndb.Setting = ticks(30)\n", CompileOptions(append_version=False))
                outs.append(r.get("code", str(r.get("error"))))
            if any("Timeout during evaluating constexpr" in o for o in outs):
                continue  # inconclusive under load
            w = [direct_value("def ticks(n):\n" + b, "ticks(30)") for b in (b1, b2, b1)]
            got = [M.parse_number(M.tokenize(o.split("\n")[0])[3]) if o.startswith("s db Setting") else None for o in outs]
            if got != [float(x) for x in w]:
                bad = ("def ticks(n):" + b1 + " / " + b2, "ticks(30)", "main, three compilations in one process", f"emitted values {got}, direct evaluation gives {w}", None)
                break
    ob = Ob("utils.eval_constexpr#literal_equals_direct_call", HELD if not bad else VIOLATED, kind="bounded", backend="native", target="utils.eval_constexpr / compile_code",
            bound=f"{n} (body, call, position) cases; {inconclusive} inconclusive (child timeout); rejected constructs checked: {rejected}", time_s=time.time() - t0)
    if bad:
        ob.witness, ob.replayed = {"body": bad[0], "call": bad[1], "position": bad[2], "sources": bad[4]}, True
        ob.detail["observed"] = bad[3]
    rep.add(ob)
    rep.bounded.update(evaluations=n + 9, distinct_nontrivial=n,
                       rule="constexpr bodies (arithmetic, bit ops, loops, conditionals, strings, enums, HASH, helper calls, default/keyword arguments) x call texts x positions (main, function body, nested expression, library module); distinct by (body, call, position)")
    rep.samples.extend([{"body": b, "call": c, "position": p} for b, c, p in cases[:3]])
