#!/bin/bash
# Builds the py3.12 overlay venv offline: repo deps come from /venv via a .pth,
# solver/contract tooling from the offline wheelhouse. Nothing is fetched.
set -e
cd "$(dirname "$0")"
if [ ! -x .venv/bin/python ] || ! .venv/bin/python -c "import z3, cvc5, jsonschema, astroid" 2>/dev/null; then
  rm -rf .venv
  /venv/bin/python -m venv .venv
  echo "import site; site.addsitedir('/venv/lib/python3.12/site-packages')" > .venv/lib/python3.12/site-packages/_repo.pth
  PIP_NO_INDEX=1 .venv/bin/pip install -q --no-index --find-links /opt/veriftools/wheels \
      z3-solver cvc5 crosshair-tool deal icontract jsonschema hypothesis
fi
.venv/bin/python -c "import z3, cvc5, jsonschema, astroid, stationeers_pytrapic; print('setup ok: z3', z3.get_version_string())"
